#!/bin/bash
# Sensitivity self-test: every patch under mutants/ (and seeded/*/patch.diff) must make its property's
# quick check report a VIOLATION. Works on scratch copies only: a git worktree of /repo and a copy of
# /verif's sources under /dev/shm (own build directory), so neither /repo nor /verif's build is touched.
#   ./selftest_mutants.sh [name-filter]      results: mutants/RESULTS.txt
set -u
TAG="${SELFTEST_TAG:-}"   # a second instance needs its own tag (own scratch copies, own lock, own results file)
exec 9>/dev/shm/selftest-mutants$TAG.lock
flock -n 9 || { echo "another selftest_mutants.sh is running"; exit 2; }
SRC="$(cd "$(dirname "$0")" && pwd)"
WT=/dev/shm/mutant-repo$TAG
VC=/dev/shm/mutant-verif$TAG
FILTER="${1:-}"
git -C /repo worktree remove --force "$WT" 2>/dev/null
rm -rf "$WT"
git -C /repo worktree add -q --detach "$WT" HEAD || exit 2
mkdir -p "$VC"
rsync -a --delete --exclude .build --exclude .git --exclude replays --exclude evidence "$SRC"/ "$VC"/
mkdir -p "$VC/replays" "$VC/evidence"
( cd "$VC" && VERIF_REPO="$WT" ./check --build ) || { echo "build failed"; exit 2; }
RES="$SRC/mutants/RESULTS$TAG.txt"
: > "$RES.tmp"
run_one() { # name prop patch expected
  local name="$1" prop="$2" patch="$3" expected="$4"
  git -C "$WT" checkout -q -- . ; git -C "$WT" clean -fdq
  if ! git -C "$WT" apply "$patch" 2>/dev/null; then echo "$name $prop APPLY-FAILED" | tee -a "$RES.tmp"; return; fi
  rm -f "$VC"/replays/*
  local s=$(date +%s)
  local out; out=$(cd "$VC" && VERIF_REPO="$WT" VERIF_HANG_MS=4000 ./check "$prop" quick 2>&1); local rc=$?
  local e=$(date +%s)
  echo "$out" > /dev/shm/mutant-last-$(basename $name).log
  local keys; keys=$(echo "$out" | grep -E "^violation check=" | sed -E 's/^violation check=([^ ]+).*/\1/' | sort -u | tr '\n' ',' )
  local verdict="MISSED"
  [ $rc -eq 1 ] && echo "$out" | grep -q "^VIOLATION property=$prop" && verdict="CAUGHT"
  [ $rc -eq 2 ] && verdict="HARNESS-ERROR"
  local others=""
  if [ "$verdict" = "MISSED" ]; then
    # which other registered checks notice this change?
    for q in $(python3 -c "import json; print(' '.join(c['property_id'] for c in json.load(open('$VC/MANIFEST.json'))['checks']))"); do
      [ "$q" = "$prop" ] && continue
      local o2; o2=$(cd "$VC" && VERIF_REPO="$WT" ./check "$q" quick 2>&1); local r2=$?
      if [ $r2 -eq 1 ] && echo "$o2" | grep -q "^VIOLATION property=$q"; then
        local k2; k2=$(echo "$o2" | grep -E "^violation check=" | sed -E 's/^violation check=([^ ]+).*/\1/' | sort -u | head -3 | tr '\n' ',')
        others="$others $q[$k2]"
      fi
    done
    [ -n "$others" ] && verdict="CAUGHT-BY-OTHER"
  fi
  echo "$name $prop $verdict rc=$rc $((e-s))s checks=[$keys] expected=$expected others=[$others ]" | tee -a "$RES.tmp"
  git -C "$WT" checkout -q -- . ; git -C "$WT" clean -fdq
}
python3 - "$SRC" "$FILTER" <<'PY' > /dev/shm/mutant-list$TAG.txt
import json,sys,os,glob
src,flt=sys.argv[1],sys.argv[2]
for m in json.load(open(os.path.join(src,'mutants/catalogue.json'))):
    if flt in m['name']: print(m['name'],m['property'],os.path.join(src,'mutants',m['name']+'.patch'),m['expected_check'])
for d in sorted(glob.glob(os.path.join(src,'seeded/*/'))):
    meta=os.path.join(d,'meta.json')
    if os.path.exists(meta):
        m=json.load(open(meta)); name='seeded/'+os.path.basename(d.rstrip('/'))
        if flt in name: print(name,m['property'],os.path.join(d,'patch.diff'),m.get('caught_by','-'))
PY
while read -r name prop patch expected; do run_one "$name" "$prop" "$patch" "$expected"; done < /dev/shm/mutant-list$TAG.txt
# property-preserving refactorings: every check must stay silent
if [ -z "$FILTER" ] || [ "$FILTER" = "equivalent" ]; then
  for patch in "$SRC"/mutants/equivalent/*.patch; do
    name="equivalent/$(basename "$patch" .patch)"
    git -C "$WT" checkout -q -- . ; git -C "$WT" clean -fdq
    git -C "$WT" apply "$patch" 2>/dev/null || { echo "$name APPLY-FAILED" | tee -a "$RES.tmp"; continue; }
    alarms=""
    for q in $(python3 -c "import json; print(' '.join(c['property_id'] for c in json.load(open('$VC/MANIFEST.json'))['checks']))"); do
      o2=$(cd "$VC" && VERIF_REPO="$WT" ./check "$q" quick 2>&1); r2=$?
      [ $r2 -ne 0 ] && alarms="$alarms $q(rc=$r2:$(echo "$o2" | grep -E "^violation check=" | head -1 | cut -c1-160))"
    done
    if [ -z "$alarms" ]; then echo "$name SILENT (all checks pass)" | tee -a "$RES.tmp"; else echo "$name FALSE-ALARM $alarms" | tee -a "$RES.tmp"; fi
    git -C "$WT" checkout -q -- . ; git -C "$WT" clean -fdq
  done
fi
if [ -z "$FILTER" ]; then mv "$RES.tmp" "$RES"; else cat "$RES.tmp" >> "$RES"; rm -f "$RES.tmp"; fi
git -C /repo worktree remove --force "$WT"
rm -rf "$VC" /dev/shm/mutant-list$TAG.txt
echo "done: $(grep -c " CAUGHT " "$RES") caught by their own check, $(grep -c "CAUGHT-BY-OTHER" "$RES") by another check, $(grep -c " MISSED " "$RES") missed"
