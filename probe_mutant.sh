#!/bin/bash
# Debug aid: apply one patch to a scratch worktree of /repo, run one check from a scratch copy of /verif,
# keep the output and replay files under /dev/shm/probe-verif for inspection.
#   ./probe_mutant.sh <patch-file|none> <ID> [tier] ; ./probe_mutant.sh --clean
set -u
WT=/dev/shm/probe-repo; VC=/dev/shm/probe-verif
SRC="$(cd "$(dirname "$0")" && pwd)"
if [ "$1" = "--clean" ]; then git -C /repo worktree remove --force "$WT" 2>/dev/null; rm -rf "$WT" "$VC"; exit 0; fi
if [ ! -d "$WT" ]; then git -C /repo worktree add -q --detach "$WT" HEAD || exit 2; fi
git -C "$WT" checkout -q -- . ; git -C "$WT" clean -fdq
mkdir -p "$VC"
rsync -a --delete --exclude .build --exclude .git --exclude replays --exclude evidence "$SRC"/ "$VC"/
mkdir -p "$VC/replays" "$VC/evidence"
[ "$1" != "none" ] && { git -C "$WT" apply "$1" || exit 2; }
cd "$VC" && VERIF_REPO="$WT" ./check "$2" "${3:-quick}"
