#!/usr/bin/env python3
"""Writes MANIFEST.json from the table below (single source of truth for registered checks)."""
import json, subprocess
TECH = "deterministic simulation with fault injection"
checks = {
 "C04": ("exploration", "E-B world: seeded search over child release schedules (controller-owned vhelper children, parked monorail points); happens-before invariants on controller event numbers", "6"),
 "C05": ("exploration", "E-B world: seeded worlds x selection modes; oracle = analyze taken immediately before + R-dep closure + helper start multiset", "6"),
 "C06": ("exploration", "E-B world: child exit-code / x-bit / undefined faults x schedules x parked internal points, forced 'compressor gone before shutdown send' schedule; status model + helper-trace truthfulness", "6"),
 "C11": ("exploration", "E-B world: argv/cwd/executable as received by the controlled child vs argument model, members spawned concurrently", "6"),
 "C16": ("exploration", "E-B world: controller is the rendezvous barrier; serial spawning deadlocks within the hang bound", "6"),
}
NA = {
 "C01": "pure function of (configuration, change list): no schedule, clock, fault or history for a simulator to own; rayon's pool cannot be put behind a seam (DESIGN.md section 6)",
 "C03": "pure function of (graph, declaration order); decided by enumeration of DAGs and permutations, not by simulation (DESIGN.md section 6)",
 "C09": "pure function of the configuration graph; no schedule can change the verdict (DESIGN.md section 6)",
 "C10": "pure function from path sets to an edge set, observable in one rendered file; used here only as the specification R-dep (DESIGN.md section 6)",
 "C18": "metamorphic input transformation of a file; nothing is scheduled, delayed, killed or corrupted (DESIGN.md section 6)",
}
import os, sys
extra = os.path.join(os.path.dirname(os.path.abspath(__file__)), "manifest_checks.json")
if os.path.exists(extra):
    for k, v in json.load(open(extra)).items():
        checks[k] = tuple(v)
pending = {}  # claimed in DESIGN but not yet registered
hooks = subprocess.run(["git","-C","/repo","log","--format=%h %s","--grep=^verif hook","-i"],capture_output=True,text=True).stdout.strip().splitlines()
m = {
 "version": 1,
 "setup_cmd": "./check --build",
 "hooks": {
   "guard": "--cfg pnordahl_monorail_verif",
   "enable": "checks build /repo/src through the shadow manifest sim/shadow/Cargo.toml (generated from /repo/Cargo.toml) with rustflags '--cfg tokio_unstable --cfg pnordahl_monorail_verif' (sim/.cargo/config.toml); /repo/Cargo.toml and Cargo.lock are untouched",
   "baseline_off_cmd": "cd /repo && cargo test --workspace --no-fail-fast --offline",
   "source_commits": [h.split()[0] for h in hooks],
   "add_only": True,
 },
 "engines": [
   {"name": "world (E-B)", "path": "sim/vsim", "serves_properties": sorted(k for k in checks if k != "C08") , "kind_free_text": "multi-process deterministic simulation: real monorail binary + real git; every child is vhelper driven one instruction at a time by a seeded controller over a unix socket; cfg-gated park points; LD_PRELOAD syscall-boundary fault shim"},
   {"name": "vclock (E-A)", "path": "sim/vclock", "serves_properties": ["C08"], "kind_free_text": "in-process discrete-event simulation: real log pipeline under tokio's paused clock with seeded select!, scripted AsyncRead children"},
 ],
 "checks": [],
 "not_applicable": [{"property_id": k, "reason": v} for k, v in sorted(NA.items())],
 "notes": "All checks: ./check <ID> quick|thorough; replay: ./check <ID> --replay <file>. VERIF_SEED selects the scenario stream (default 20260101). Known findings: KNOWN_FINDINGS.txt.",
}
for k in sorted(checks):
    level, text, ref = checks[k][:3]
    m["checks"].append({
      "property_id": k,
      "quick_cmd": f"./check {k} quick",
      "thorough_cmd": f"./check {k} thorough",
      "evidence_file": f"/verif/evidence/{k}.json",
      "replay_cmd_template": f"./check {k} --replay {{path}}",
      "engine": "vclock (E-A) + world (E-B)" if k == "C08" else "world (E-B)",
      "level_claimed": {"category": level, "text": text, "design_ref": f"DESIGN.md section {ref} ({k})"},
      "level_note": "sampled, not exhaustive: a clean batch is evidence, not proof. Trusted base: the controller/vhelper protocol, the reference models in sim/vsim/src, the kernel, git. monorail's internal thread schedule between two controller-visible events is not controlled.",
      "technique": TECH,
    })
json.dump(m, open(os.path.join(os.path.dirname(os.path.abspath(__file__)), "MANIFEST.json"), "w"), indent=1)
print("checks:", [c["property_id"] for c in m["checks"]])
