#!/bin/bash
# Determinism self-test: for every registered check, execute the first N scenarios three times in
# separate processes at worker counts 1, 4 and 16 and diff the hashes of the canonical traces.
#   ./selftest_determinism.sh [N=48] [ID ...]      results: determinism/RESULTS.txt
cd "$(dirname "$0")"
N="${1:-48}"; shift
IDS="$@"
[ -z "$IDS" ] && IDS=$(python3 -c "import json; print(' '.join(c['property_id'] for c in json.load(open('MANIFEST.json'))['checks']))")
./check --build >/dev/null || exit 2
V=.build/target/debug/vsim
mkdir -p determinism; : > determinism/RESULTS.txt
rc=0
for p in $IDS; do
  n=$N; [ "$p" = "C08" ] && n=$((N<80 ? 80 : N))   # C08: indices >= 64 are the E-B worlds; the first 64 are E-A batches
  VERIF_WORKERS=1  $V tracehash $p 0 $n > /dev/shm/det-$p-a.txt
  VERIF_WORKERS=4  $V tracehash $p 0 $n > /dev/shm/det-$p-b.txt
  VERIF_WORKERS=16 $V tracehash $p 0 $n > /dev/shm/det-$p-c.txt
  d1=$(diff /dev/shm/det-$p-a.txt /dev/shm/det-$p-b.txt | grep -c '^<')
  d2=$(diff /dev/shm/det-$p-a.txt /dev/shm/det-$p-c.txt | grep -c '^<')
  echo "$p scenarios=$n mismatches_1v4=$d1 mismatches_1v16=$d2" | tee -a determinism/RESULTS.txt
  [ "$d1" != "0" -o "$d2" != "0" ] && { rc=1; diff /dev/shm/det-$p-a.txt /dev/shm/det-$p-c.txt | head -4; }
  rm -f /dev/shm/det-$p-*.txt
done
exit $rc
