#!/bin/bash
# run every registered check of a tier, print one line each; exit non-zero if any alarmed
cd "$(dirname "$0")"
TIER="${1:-quick}"
rc=0
for p in $(python3 -c "import json; print(' '.join(c['property_id'] for c in json.load(open('MANIFEST.json'))['checks']))"); do
  s=$(date +%s)
  out=$(./check $p $TIER 2>&1); r=$?
  e=$(date +%s)
  echo "$p rc=$r $((e-s))s  $(echo "$out" | tail -1)"
  echo "$out" | grep -E "^(VIOLATION|KNOWN-FINDING)" 
  [ $r -ne 0 ] && rc=1
done
exit $rc
