#!/bin/bash
# Silence self-test for property-preserving refactorings: every registered check must pass on each patch
# under mutants/equivalent/ whose name contains the filter. Scratch copies only (own tag).
#   ./selftest_equivalents.sh [name-filter]      results appended to mutants/RESULTS-equivalents.txt
set -u
SRC="$(cd "$(dirname "$0")" && pwd)"
FILTER="${1:-}"
WT=/dev/shm/eqs-repo; VC=/dev/shm/eqs-verif
exec 9>/dev/shm/selftest-eqs.lock
flock -n 9 || { echo "another selftest_equivalents.sh is running"; exit 2; }
git -C /repo worktree remove --force "$WT" 2>/dev/null; rm -rf "$WT"
git -C /repo worktree add -q --detach "$WT" HEAD || exit 2
mkdir -p "$VC"
rsync -a --delete --exclude .build --exclude .git --exclude replays --exclude evidence "$SRC"/ "$VC"/
mkdir -p "$VC/replays" "$VC/evidence"
( cd "$VC" && VERIF_REPO="$WT" ./check --build ) || { echo "build failed"; exit 2; }
RES="$SRC/mutants/RESULTS-equivalents.txt"
for patch in "$SRC"/mutants/equivalent/*.patch; do
  name="equivalent/$(basename "$patch" .patch)"
  case "$name" in *"$FILTER"*) ;; *) continue;; esac
  git -C "$WT" checkout -q -- . ; git -C "$WT" clean -fdq
  git -C "$WT" apply "$patch" 2>/dev/null || { echo "$name APPLY-FAILED" | tee -a "$RES"; continue; }
  alarms=""
  for q in $(python3 -c "import json; print(' '.join(c['property_id'] for c in json.load(open('$VC/MANIFEST.json'))['checks']))"); do
    o2=$(cd "$VC" && VERIF_REPO="$WT" ./check "$q" quick 2>&1); r2=$?
    [ $r2 -ne 0 ] && alarms="$alarms $q(rc=$r2:$(echo "$o2" | grep -E "^violation check=|error" | head -1 | cut -c1-200))"
  done
  if [ -z "$alarms" ]; then echo "$name SILENT (all checks pass)" | tee -a "$RES"; else echo "$name FALSE-ALARM $alarms" | tee -a "$RES"; fi
done
git -C "$WT" checkout -q -- . ; git -C /repo worktree remove --force "$WT"; rm -rf "$VC"
