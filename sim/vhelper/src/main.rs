//! vhelper: the only executable any generated command resolves to. It decides nothing:
//! it reports how it was started and then executes exactly one controller instruction
//! at a time, acknowledging each. Without a controller it exits 0 at once.
use std::fs::File;
use std::io::{BufRead, BufReader, Write};
use std::mem::ManuallyDrop;
use std::os::unix::ffi::{OsStrExt, OsStringExt};
use std::os::unix::io::FromRawFd;
use std::os::unix::net::UnixStream;

fn hex(b: &[u8]) -> String {
    if b.is_empty() {
        return "-".into();
    }
    let mut s = String::with_capacity(b.len() * 2);
    for x in b {
        s.push_str(&format!("{:02x}", x));
    }
    s
}
fn unhex(s: &str) -> Vec<u8> {
    if s == "-" {
        return vec![];
    }
    let b = s.as_bytes();
    let v = |c: u8| -> u8 {
        match c {
            b'0'..=b'9' => c - b'0',
            b'a'..=b'f' => c - b'a' + 10,
            _ => 0,
        }
    };
    b.chunks(2).map(|p| (v(p[0]) << 4) | v(*p.get(1).unwrap_or(&b'0'))).collect()
}

fn main() {
    let ctl = match std::env::var("MONORAIL_VERIF_CTL") {
        Ok(p) if !p.is_empty() => p,
        _ => std::process::exit(0),
    };
    let actor = std::env::var("MONORAIL_VERIF_ACTOR").unwrap_or_else(|_| "M".into());
    let mut sock = match UnixStream::connect(&ctl) {
        Ok(s) => s,
        Err(_) => std::process::exit(97),
    };
    let mut rd = BufReader::new(sock.try_clone().expect("clone"));
    let args: Vec<Vec<u8>> = std::env::args_os().map(|a| a.into_vec()).collect();
    let cwd = std::env::current_dir()
        .map(|p| p.as_os_str().as_bytes().to_vec())
        .unwrap_or_default();
    let mut hello = format!(
        "HELLO {} {} {} {} {}",
        hex(actor.as_bytes()),
        std::process::id(),
        hex(&args[0]),
        hex(&cwd),
        args.len() - 1
    );
    for a in &args[1..] {
        hello.push(' ');
        hello.push_str(&hex(a));
    }
    // stdin must be the null device (documented: stdin is not available to commands)
    let stdin_null = std::fs::read_link("/proc/self/fd/0")
        .map(|p| p.as_os_str() == "/dev/null")
        .unwrap_or(false);
    hello.push_str(if stdin_null { " STDIN0" } else { " STDINX" });
    // the environment as received (names and values), except the simulation's own variables: the only
    // other channel besides argv, cwd and stdin through which anything could influence this child
    let mut env: Vec<(Vec<u8>, Vec<u8>)> = std::env::vars_os()
        .map(|(k, v)| (k.into_vec(), v.into_vec()))
        .filter(|(k, _)| !k.starts_with(b"MONORAIL_VERIF_") && !k.starts_with(b"FSFAULT_") && k != b"LD_PRELOAD")
        .collect();
    env.sort();
    let mut blob = Vec::new();
    for (k, v) in &env {
        blob.extend_from_slice(k);
        blob.push(b'=');
        blob.extend_from_slice(v);
        blob.push(0);
    }
    hello.push_str(&format!(" ENV {}\n", hex(&blob)));
    if sock.write_all(hello.as_bytes()).is_err() {
        std::process::exit(97);
    }
    let mut fds: [Option<ManuallyDrop<File>>; 3] = [
        None,
        Some(ManuallyDrop::new(unsafe { File::from_raw_fd(1) })),
        Some(ManuallyDrop::new(unsafe { File::from_raw_fd(2) })),
    ];
    let mut line = String::new();
    loop {
        line.clear();
        match rd.read_line(&mut line) {
            Ok(0) | Err(_) => std::process::exit(98), // controller went away
            Ok(_) => {}
        }
        let mut it = line.split_whitespace();
        let reply = match it.next() {
            Some("OUT") => {
                let fd: usize = it.next().and_then(|x| x.parse().ok()).unwrap_or(1);
                let data = unhex(it.next().unwrap_or("-"));
                match fds.get_mut(fd).and_then(|f| f.as_mut()) {
                    Some(f) => match f.write_all(&data) {
                        Ok(_) => format!("ACK {}\n", data.len()),
                        Err(e) => format!("ERR {}\n", e.raw_os_error().unwrap_or(-1)),
                    },
                    None => "ERR 9\n".to_string(),
                }
            }
            Some("FILL") => {
                // write numbered lines "<prefix> <k> ffff...f\n" (each far below PIPE_BUF, so a non-blocking write takes
                // all of a line or nothing) until the pipe has stayed full for 400 ms - the reader at the other end is
                // stuck - or <max> lines are out; reports how many lines were written
                let fd: usize = it.next().and_then(|x| x.parse().ok()).unwrap_or(1);
                let prefix = unhex(it.next().unwrap_or("-"));
                let max: u64 = it.next().and_then(|x| x.parse().ok()).unwrap_or(1000);
                let raw = fd as i32;
                let fl = unsafe { libc::fcntl(raw, libc::F_GETFL) };
                unsafe { libc::fcntl(raw, libc::F_SETFL, fl | libc::O_NONBLOCK) };
                let mut n: u64 = 0;
                let mut full_since: Option<std::time::Instant> = None;
                while n < max {
                    let mut line = prefix.clone();
                    line.extend_from_slice(format!(" {} ", n + 1).as_bytes());
                    line.extend_from_slice(&[b'f'; 150]);
                    line.push(b'\n');
                    let r = unsafe { libc::write(raw, line.as_ptr() as *const libc::c_void, line.len()) };
                    if r == line.len() as isize {
                        n += 1;
                        full_since = None;
                    } else if r < 0 && std::io::Error::last_os_error().raw_os_error() == Some(libc::EAGAIN) {
                        let t = *full_since.get_or_insert_with(std::time::Instant::now);
                        if t.elapsed() >= std::time::Duration::from_millis(400) {
                            break;
                        }
                        std::thread::sleep(std::time::Duration::from_millis(10));
                    } else {
                        break; // a partial write or another error: stop, report what is certain
                    }
                }
                unsafe { libc::fcntl(raw, libc::F_SETFL, fl) };
                format!("ACK {}\n", n)
            }
            Some("CLOSE") => {
                let fd: usize = it.next().and_then(|x| x.parse().ok()).unwrap_or(1);
                if let Some(slot) = fds.get_mut(fd) {
                    if let Some(f) = slot.take() {
                        drop(ManuallyDrop::into_inner(f));
                    }
                }
                "ACK 0\n".to_string()
            }
            Some("SIGNAL") => {
                // die by a signal instead of exiting (no exit code at all)
                let sig: i32 = it.next().and_then(|x| x.parse().ok()).unwrap_or(9);
                let _ = sock.write_all(b"ACK 0\n");
                unsafe {
                    libc::signal(sig, libc::SIG_DFL);
                    libc::kill(libc::getpid(), sig);
                }
                std::thread::sleep(std::time::Duration::from_secs(5));
                std::process::exit(99);
            }
            Some("FORKHOLD") => {
                // leave a background process behind that keeps stdout and stderr open for <ms> and then exits
                let ms: u64 = it.next().and_then(|x| x.parse().ok()).unwrap_or(1000);
                let pid = unsafe { libc::fork() };
                if pid == 0 {
                    drop(rd);
                    unsafe {
                        libc::close(std::os::unix::io::AsRawFd::as_raw_fd(&sock));
                    }
                    std::thread::sleep(std::time::Duration::from_millis(ms));
                    unsafe { libc::_exit(0) };
                }
                if pid > 0 {
                    "ACK 0\n".to_string()
                } else {
                    "ERR 11\n".to_string()
                }
            }
            Some("RUN") => {
                // run a nested command (hex argv) to completion with this process's environment and
                // report how it ended: DONE <code|-1> <hex of the last 400 bytes of its stderr>
                let argv: Vec<Vec<u8>> = it.map(unhex).collect();
                if argv.is_empty() {
                    "ERR 22\n".to_string()
                } else {
                    use std::os::unix::ffi::OsStrExt;
                    let mut c = std::process::Command::new(std::ffi::OsStr::from_bytes(&argv[0]));
                    for a in &argv[1..] {
                        c.arg(std::ffi::OsStr::from_bytes(a));
                    }
                    c.stdin(std::process::Stdio::null());
                    match c.output() {
                        Ok(o) => {
                            let e = &o.stderr[o.stderr.len().saturating_sub(400)..];
                            format!("DONE {} {}\n", o.status.code().unwrap_or(-1), hex(e))
                        }
                        Err(e) => format!("ERR {}\n", e.raw_os_error().unwrap_or(-1)),
                    }
                }
            }
            Some("EXIT") => {
                let code: i32 = it.next().and_then(|x| x.parse().ok()).unwrap_or(0);
                let _ = sock.write_all(b"ACK 0\n");
                std::process::exit(code);
            }
            _ => "ACK 0\n".to_string(),
        };
        if sock.write_all(reply.as_bytes()).is_err() {
            std::process::exit(98);
        }
    }
}
