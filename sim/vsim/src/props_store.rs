//! C12 (run store over histories) and C13 (crash during run): histories of controlled runs.
use crate::harness::{scenario_seed, Outcome, Property, Tier};
use crate::logparse::{parse_blocks, Block};
use crate::prng::Rng;
use crate::proto::hex;
use crate::rundrv::{drive_run, Behav, Kill, OutStep, RunOpts, RunScript, RunTrace, Strategy};
use crate::runworld::{default_hang_ms, strip_volatile, COMMANDS};
use crate::world::{CmdFile, TargetSpec, World, WorldSpec};
use serde::{Deserialize, Serialize};
use serde_json::{json, Value};
use std::collections::{BTreeMap, BTreeSet};
use std::time::Duration;

fn components() -> Value {
    json!({
        "real": ["monorail binary (run, result show, log show, checkpoint)", "tmpfs", "zstd", "git"],
        "stub": ["children are vhelper processes scripted by the controller"],
        "controlled": ["sequence of runs", "child output and exit codes", "SIGKILL at parked points / decision steps", "process death at filesystem-effect boundaries (LD_PRELOAD shim)"]
    })
}

#[derive(Serialize, Deserialize, Clone, Debug, PartialEq)]
pub struct RunStep {
    pub opts: RunOpts,
    pub behav: Vec<Behav>,
    /// an invocation that monorail must reject before running anything (unknown sequence): it is not
    /// a run, and must leave the record of the completed runs alone
    #[serde(default)]
    pub rejected: bool,
    /// files rewritten before this run (changed-mode runs of a checkpointed history)
    #[serde(default)]
    pub edits: Vec<String>,
    /// `checkpoint update -p` before this run: afterwards nothing is changed
    #[serde(default)]
    pub cp_update_before: bool,
}

pub fn flat_world(rng: &mut Rng, nt: usize, ncmd: usize, max_retained: usize, undefined_pct: u32, git: bool) -> WorldSpec {
    let mut targets = vec![];
    let mut cmd_files = vec![];
    for i in 0..nt {
        let path = format!("t{:02}", i);
        for c in &COMMANDS[..ncmd] {
            if rng.chance(undefined_pct, 100) {
                continue;
            }
            cmd_files.push(CmdFile { target: path.clone(), command: c.to_string(), rel: WorldSpec::default_cmd_rel(&path, c), exec: true, broken: false });
        }
        targets.push(TargetSpec { path, ..Default::default() });
    }
    WorldSpec { targets, cmd_files, files: vec![], sequences: vec![], max_retained_runs: max_retained, gitignore: vec![], git, lock_host: None, default_ports: 0, omit_max_retained: false, sha256_repo: false, clock_plan: vec![], script_wrappers: 0 }
}

/// A run step over a flat world: explicit targets (or all), a subset of commands, serial-tagged output.
pub fn gen_step(rng: &mut Rng, spec: &WorldSpec, serial: usize, allow_fail: bool, ncmd: usize) -> RunStep {
    let mut cmds: Vec<String> = COMMANDS[..ncmd].iter().map(|s| s.to_string()).collect();
    rng.shuffle(&mut cmds);
    cmds.truncate(rng.range(1, ncmd));
    let mut opts = RunOpts { commands: cmds.clone(), ..Default::default() };
    if rng.chance(2, 3) {
        let mut ts: Vec<String> = spec.targets.iter().map(|t| t.path.clone()).collect();
        rng.shuffle(&mut ts);
        ts.truncate(rng.range(1, ts.len()));
        opts.targets = ts;
    }
    let mut behav = vec![];
    for cf in &spec.cmd_files {
        if !cmds.contains(&cf.command) {
            continue;
        }
        let k = rng.below(4);
        let outs = (0..k)
            .map(|i| {
                let fd = if rng.chance(1, 2) { 1 } else { 2 };
                OutStep { fd, hex: hex(format!("r{} {} {} fd{} line{}\n", serial, cf.command, cf.target, fd, i).as_bytes()), pause_ms: 0, close: false }
            })
            .collect();
        behav.push(Behav { command: cf.command.clone(), target: cf.target.clone(), outs, code: 0, exit_pause_ms: 0, early_exit: false, hold_pipes_ms: 0, outs_again: vec![] });
    }
    if allow_fail && !behav.is_empty() && rng.chance(1, 4) {
        let i = rng.below(behav.len());
        behav[i].code = *rng.pick(&[1, 2, 77]);
    }
    RunStep { opts, behav, rejected: false, edits: vec![], cp_update_before: false }
}

pub fn step_script(step: &RunStep, rand_seed: u64) -> RunScript {
    let mut s = RunScript::simple(step.opts.clone());
    s.behav = step.behav.clone();
    // a failing child is released last so that no sibling is cancelled mid-output
    s.strategy = Strategy::Prio;
    s.prio = step.behav.iter().filter(|b| b.code != 0).map(|b| (b.target.clone(), 1)).collect();
    s.flush_ms = Some(20);
    s.rand_seed = Some(rand_seed);
    s
}

/// logs a completed run must have stored: (file, target, command) -> bytes, non-empty only
pub fn expected_blocks(tr: &RunTrace) -> BTreeMap<(String, String, String), Vec<u8>> {
    let mut m = BTreeMap::new();
    for h in &tr.helpers {
        for (fd, name) in [(1usize, "stdout.zst"), (2usize, "stderr.zst")] {
            if !h.written[fd].is_empty() {
                m.insert((name.to_string(), h.target.clone(), h.command.clone()), h.written[fd].clone());
            }
        }
    }
    m
}

pub fn blocks_map(blocks: &[Block]) -> Result<BTreeMap<(String, String, String), Vec<u8>>, String> {
    let mut m = BTreeMap::new();
    for b in blocks {
        let k = (b.file.clone(), b.target.clone(), b.command.clone());
        if m.insert(k.clone(), b.bytes.clone()).is_some() {
            return Err(format!("header {:?} printed twice", k));
        }
    }
    Ok(m)
}

fn show_logs(w: &World, id: Option<usize>) -> Result<BTreeMap<(String, String, String), Vec<u8>>, String> {
    let mut args = vec!["log".to_string(), "show".into(), "--stdout".into(), "--stderr".into()];
    if let Some(i) = id {
        args.push("--id".into());
        args.push(i.to_string());
    }
    let o = w.cli_v(&args);
    if o.code != Some(0) {
        return Err(format!("log show {:?} exit {:?}: {}", id, o.code, o.err_str().trim()));
    }
    let (pre, blocks) = parse_blocks(&o.stdout);
    if !pre.is_empty() {
        return Err(format!("log show printed bytes before any header: {:?}", String::from_utf8_lossy(&pre[..pre.len().min(80)])));
    }
    blocks_map(&blocks)
}

fn fmt_key(k: &(String, String, String)) -> String {
    format!("{}|{}|{}", k.0, k.1, k.2)
}

fn diff_blocks(got: &BTreeMap<(String, String, String), Vec<u8>>, want: &BTreeMap<(String, String, String), Vec<u8>>) -> Option<(String, String)> {
    for (k, v) in want {
        match got.get(k) {
            None => return Some(("missing_log".into(), format!("log {} is missing (expected {} bytes)", fmt_key(k), v.len()))),
            Some(g) if g != v => {
                return Some(("wrong_bytes".into(), format!("log {} shows {:?}, the process wrote {:?}", fmt_key(k), String::from_utf8_lossy(&g[..g.len().min(120)]), String::from_utf8_lossy(&v[..v.len().min(120)]))))
            }
            _ => {}
        }
    }
    for (k, g) in got {
        if !want.contains_key(k) {
            return Some(("leftover_log".into(), format!("log {} is shown ({:?}) but this run wrote nothing there", fmt_key(k), String::from_utf8_lossy(&g[..g.len().min(120)]))));
        }
    }
    None
}

fn canon_doc(v: &Value) -> Value {
    let mut x = v.clone();
    if let Some(m) = x.as_object_mut() {
        m.remove("timestamp");
    }
    x
}

// ---------------------------------------------------------------------------------------------
// C12

#[derive(Serialize, Deserialize, Clone, Debug)]
pub struct C12Scenario {
    pub spec: WorldSpec,
    pub runs: Vec<RunStep>,
    pub rand_seed: u64,
    /// the history starts with `checkpoint update`; runs without -t then cover the changed targets only
    #[serde(default)]
    pub checkpointed: bool,
    /// every unlink/rmdir below the output directory takes this long (a slow disk)
    #[serde(default)]
    pub unlink_delay_us: Option<u32>,
    /// (k, m): after the k-th completed run the configuration's max_retained_runs is rewritten to m
    #[serde(default)]
    pub relimit: Option<(usize, usize)>,
}

pub struct C12;

/// A history whose middle run prints a result document larger than 1 MiB (many targets with long paths x a
/// long sequence of mostly undefined commands), between ordinary runs.
fn gen_c12_huge(rng: &mut Rng) -> C12Scenario {
    let nt = 40;
    let mut targets = vec![];
    let mut cmd_files = vec![];
    for i in 0..nt {
        let path = format!("t{:02}-{}", i, "long-directory-name-".repeat(8));
        if i % 7 == 0 {
            cmd_files.push(CmdFile { target: path.clone(), command: "c000".into(), rel: WorldSpec::default_cmd_rel(&path, "c000"), exec: true, broken: false });
        }
        cmd_files.push(CmdFile { target: path.clone(), command: "build".into(), rel: WorldSpec::default_cmd_rel(&path, "build"), exec: true, broken: false });
        targets.push(TargetSpec { path, ..Default::default() });
    }
    let seq: Vec<String> = (0..165).map(|i| format!("c{:03}", i)).collect();
    let spec = WorldSpec { targets, cmd_files, files: vec![], sequences: vec![("big".into(), seq)], max_retained_runs: 2, gitignore: vec![], git: false, lock_host: None, default_ports: 0, omit_max_retained: false, sha256_repo: false, clock_plan: vec![], script_wrappers: 0 };
    let small = |serial: usize, spec: &WorldSpec| {
        let t = spec.targets[serial % 5].path.clone();
        RunStep {
            opts: RunOpts { commands: vec!["build".into()], targets: vec![t.clone()], ..Default::default() },
            behav: vec![Behav { command: "build".into(), target: t.clone(), outs: vec![OutStep { fd: 1, hex: hex(format!("r{} build {} fd1 line0\n", serial, t).as_bytes()), pause_ms: 0, close: false }], code: 0, exit_pause_ms: 0, early_exit: false, hold_pipes_ms: 0, outs_again: vec![] }],
            rejected: false,
            edits: vec![],
            cp_update_before: false,
        }
    };
    let big = RunStep { opts: RunOpts { sequences: vec!["big".into()], ..Default::default() }, behav: vec![], rejected: false, edits: vec![], cp_update_before: false };
    let runs = vec![small(1, &spec), big, small(3, &spec)];
    C12Scenario { spec, runs, rand_seed: rng.next_u64() % 1_000_000, checkpointed: false, unlink_delay_us: None, relimit: None }
}

fn gen_c12(seed: u64, idx: usize, tier: Tier) -> C12Scenario {
    let mut rng = Rng::new(scenario_seed(seed, "C12", idx));
    if rng.chance(1, 50) {
        return gen_c12_huge(&mut rng);
    }
    // mostly small rings; one in eight a ring of 10-12 slots (two-digit slot names) with a history that wraps it
    let big_ring = rng.chance(1, 8);
    let max = if big_ring { *rng.pick(&[10usize, 10, 11, 12]) } else { *rng.pick(&[1usize, 2, 3, 5]) };
    let nt = rng.range(2, 4);
    let ncmd = rng.range(2, 3);
    let checkpointed = rng.chance(1, 3);
    let mut spec = flat_world(&mut rng, nt, ncmd, max, 10, checkpointed);
    // a ring of ten may also be the documented default: the configuration then does not mention the key
    if max == 10 && rng.chance(2, 3) {
        spec.omit_max_retained = true;
    }
    let mult = if tier == Tier::Thorough { rng.range(3, 6) } else { rng.range(3, 4) };
    let n = if big_ring { max + rng.range(2, 6) } else { (max * mult).max(4).min(24) };
    let mut runs: Vec<RunStep> = (1..=n).map(|i| gen_step(&mut rng, &spec, i, true, ncmd)).collect();
    for r in runs.iter_mut().skip(1) {
        if rng.chance(1, 7) {
            // invocations monorail must reject before it runs anything, for different reasons
            r.rejected = true;
            match rng.below(3) {
                0 => r.opts.sequences = vec!["no-such-sequence".into()],
                1 => {
                    // --args needs exactly one command and one target
                    r.opts.commands = vec!["build".into(), "test".into()];
                    r.opts.targets = vec![spec.targets[0].path.clone()];
                    r.opts.args = vec!["x".into()];
                }
                _ => r.opts.targets = vec!["no/such/target".into()],
            }
        }
    }
    if checkpointed {
        // changed-mode runs: nothing changed at first (an empty run is a completed run too), then edits accumulate
        let mut edited_any = false;
        for r in runs.iter_mut() {
            if r.rejected || rng.chance(1, 2) {
                continue;
            }
            r.opts.targets.clear();
            if edited_any && rng.chance(1, 4) {
                r.cp_update_before = true;
                edited_any = false;
            }
            if rng.chance(2, 3) {
                for t in &spec.targets {
                    if rng.chance(1, 2) {
                        r.edits.push(format!("{}/file.txt", t.path));
                        edited_any = true;
                    }
                }
            }
        }
    }
    let unlink_delay_us = if rng.chance(1, 5) { Some(*rng.pick(&[2_000u32, 5_000])) } else { None };
    let rand_seed = rng.next_u64() % 1_000_000;
    // one history in six changes the retention limit part-way (lowered or raised)
    let relimit = if rng.chance(1, 6) && runs.len() >= 4 {
        let cands: Vec<usize> = [1usize, 2, 3, 4, 6].iter().cloned().filter(|&m| m != max).collect();
        Some((rng.range(1, runs.len() - 2), *rng.pick(&cands)))
    } else {
        None
    };
    {
        let mut crng = Rng::new(scenario_seed(seed, "C12-clock", idx));
        if crng.chance(1, 3) {
            spec.clock_plan = crate::world::gen_clock_plan(&mut crng);
        }
    }
    C12Scenario { spec, runs, rand_seed, checkpointed, unlink_delay_us, relimit }
}

impl Property for C12 {
    fn id(&self) -> &'static str {
        "C12"
    }
    fn count(&self, tier: Tier) -> usize {
        match tier {
            Tier::Quick => 150,
            Tier::Thorough => 2500,
        }
    }
    fn generate(&self, seed: u64, idx: usize, tier: Tier) -> Value {
        serde_json::to_value(gen_c12(seed, idx, tier)).unwrap()
    }
    fn execute(&self, v: &Value) -> Outcome {
        let sc: C12Scenario = match serde_json::from_value(v.clone()) {
            Ok(s) => s,
            Err(e) => return Outcome::skip(&format!("bad scenario {}", e)),
        };
        let mut w = match World::create(&sc.spec, true) {
            Ok(w) => w,
            Err(e) => return Outcome::skip(&format!("world: {}", e)),
        };
        w.set_rand_seed(sc.rand_seed);
        let mut max = sc.spec.max_retained_runs;
        let mut max_ever = max;
        // after a change of the limit the slot a run gets is the implementation's business: the checks then
        // only use what the statement says (latest run; each of the last `max` runs is shown by some --id;
        // never more directories than the largest limit that was ever in force)
        let mut general = false;
        let mut out = Outcome::default();
        if let Some(us) = sc.unlink_delay_us {
            w.knobs.push(("FSFAULT_ROOT".into(), w.out_dir().to_string_lossy().into_owned()));
            w.knobs.push(("FSFAULT_UNLINK_DELAY_US".into(), us.to_string()));
            out.fault("slow_unlink_below_the_output_directory", 1);
        }
        if sc.checkpointed && w.cli(&["checkpoint", "update"]).code != Some(0) {
            return Outcome::skip("checkpoint update failed");
        }
        let mut edit_no = 0;
        let mut history: Vec<BTreeMap<(String, String, String), Vec<u8>>> = vec![];
        let mut dirsets: Vec<BTreeSet<String>> = vec![];
        let mut shrunk_slot = false;
        let hang = Duration::from_millis(default_hang_ms());
        let mut serial = 0usize;
        let mut last_printed: Option<Value> = None;
        for step in sc.runs.iter() {
            if step.rejected {
                let o = w.cli_v(&step.opts.to_args());
                out.sub_evals += 1;
                out.fault("rejected_invocation_in_history", 1);
                out.trace.push(format!("rejected invocation {} -> exit {:?}", step.opts.to_args().join(" "), o.code));
                if o.code == Some(0) || o.code == Some(1) {
                    out.advisories.push("an unknown sequence was not rejected".into());
                    out.skipped = Some("reject_not_rejected(other property)".into());
                    return out;
                }
                if serial == 0 || general {
                    continue;
                }
                // everything recorded for the completed runs must still be there
                let max_ = max;
                let slot = (serial - 1) % max_ + 1;
                let rs = w.cli(&["result", "show"]);
                match (rs.code, rs.json(), &last_printed) {
                    (Some(0), Some(d), Some(p)) if canon_doc(&d) == canon_doc(p) => {}
                    _ => out.violate("result_latest", "after_rejected_invocation", format!("after run {} and a rejected invocation ({}), `result show` no longer returns run {}'s document: exit {:?} {}", serial, step.opts.to_args().join(" "), serial, rs.code, rs.err_str().trim())),
                }
                match show_logs(&w, None) {
                    Ok(got) => {
                        if let Some((class, msg)) = diff_blocks(&got, &history[serial - 1]) {
                            out.violate("logs_latest", &format!("after_rejected_invocation:{}", class), format!("after run {} (slot {}) and a rejected invocation: {}", serial, slot, msg));
                        }
                    }
                    Err(e) => out.violate("logs_latest", "after_rejected_invocation:error", format!("after run {} and a rejected invocation: {}", serial, e)),
                }
                let first = if serial > max_ { serial - max_ + 1 } else { 1 };
                for j in first..=serial {
                    let sj = (j - 1) % max_ + 1;
                    match show_logs(&w, Some(sj)) {
                        Ok(got) => {
                            if let Some((class, msg)) = diff_blocks(&got, &history[j - 1]) {
                                out.violate("logs_by_id", &format!("after_rejected_invocation:{}", class), format!("after run {} and a rejected invocation: `log show --id {}` should still show run {}: {}", serial, sj, j, msg));
                            }
                        }
                        Err(e) => out.violate("logs_by_id", "after_rejected_invocation:error", format!("after run {} and a rejected invocation: --id {} (run {}): {}", serial, sj, j, e)),
                    }
                }
                if !out.violations.is_empty() {
                    break;
                }
                continue;
            }
            serial += 1;
            if step.cp_update_before && w.cli(&["checkpoint", "update", "-p"]).code != Some(0) {
                return Outcome::skip("checkpoint update -p failed");
            }
            for f in &step.edits {
                edit_no += 1;
                let _ = w.write_file(f, &format!("edit {}\n", edit_no));
            }
            let tr = drive_run(&mut w, "M1", &step_script(step, sc.rand_seed + serial as u64), hang);
            if sc.checkpointed && step.opts.targets.is_empty() && tr.helpers.is_empty() {
                out.fault("run_that_selects_nothing_in_history", 1);
            }
            out.steps += tr.steps as u64;
            out.sub_evals += 1;
            out.trace.push(format!("run {} {} -> exit {:?}", serial, tr.args.join(" "), tr.code()));
            if tr.hang.is_some() || !(tr.code() == Some(0) || tr.code() == Some(1)) {
                out.advisories.push(format!("run {} did not complete: {:?} {}", serial, tr.hang, tr.stderr_str()));
                out.skipped = Some("run_did_not_complete(other property)".into());
                return out;
            }
            if tr.code() == Some(1) {
                out.fault("failing_run_in_history", 1);
            }
            let printed = match tr.result_json() {
                Some(d) => d,
                None => {
                    out.skipped = Some("run_without_document(other property)".into());
                    return out;
                }
            };
            let want = expected_blocks(&tr);
            history.push(want.clone());
            last_printed = Some(printed.clone());
            let slot = (serial - 1) % max + 1;
            // result show == printed document
            let rs = w.cli(&["result", "show"]);
            match rs.json() {
                Some(d) if rs.code == Some(0) => {
                    if canon_doc(&d) != canon_doc(&printed) {
                        let mut a = d.clone();
                        let mut b = printed.clone();
                        strip_volatile(&mut a);
                        strip_volatile(&mut b);
                        let class = if a == b { "differs_in_volatile_fields" } else { "other_run" };
                        out.violate("result_latest", class, format!("after run {} `result show` returned {} but the run printed {}", serial, a, b));
                    }
                }
                _ => out.violate("result_latest", "error", format!("after run {} `result show` failed: exit {:?} {}", serial, rs.code, rs.err_str().trim())),
            }
            // log show == exactly this run's logs
            match show_logs(&w, None) {
                Ok(got) => {
                    if let Some((class, msg)) = diff_blocks(&got, &want) {
                        out.violate("logs_latest", &class, format!("after run {} (slot {}): {}", serial, slot, msg));
                    }
                }
                Err(e) => out.violate("logs_latest", "error", format!("after run {}: {}", serial, e)),
            }
            let dirs: Vec<String> = std::fs::read_dir(w.out_dir().join("run")).map(|r| r.flatten().map(|e| e.file_name().to_string_lossy().into_owned()).collect()).unwrap_or_default();
            if general {
                // the ring that existed when the limit changed is the implementation's business; once `max` runs
                // have completed under the new limit they are a history of their own and each must be shown by
                // some id; until then only the latest run is demanded
                let since = serial - sc.relimit.map(|r| r.0).unwrap_or(0);
                let first = if since >= max { serial - max + 1 } else { serial };
                let ids: Vec<usize> = dirs.iter().filter_map(|d| d.parse().ok()).collect();
                let shown: Vec<_> = ids.iter().filter_map(|n| show_logs(&w, Some(*n)).ok()).collect();
                for j in first..=serial {
                    out.sub_evals += 1;
                    if !shown.iter().any(|g| diff_blocks(g, &history[j - 1]).is_none()) {
                        out.violate("logs_by_id", "after_limit_change:no_id_shows_run", format!("after run {} (limit now {}): no `log show --id N` (N in {:?}) shows run {}, one of the last {} runs", serial, max, ids, j, max));
                    }
                }
                if dirs.len() > max_ever {
                    out.violate("slot_count", "after_limit_change:too_many", format!("after run {}: {} run directories {:?}; the largest max_retained_runs ever in force is {}", serial, dirs.len(), dirs, max_ever));
                }
                if !out.violations.is_empty() {
                    break;
                }
                continue;
            }
            // each of the last `max` runs by id
            let first = if serial > max { serial - max + 1 } else { 1 };
            for j in first..=serial {
                let sj = (j - 1) % max + 1;
                match show_logs(&w, Some(sj)) {
                    Ok(got) => {
                        if let Some((class, msg)) = diff_blocks(&got, &history[j - 1]) {
                            out.violate("logs_by_id", &class, format!("after run {}: `log show --id {}` should show run {}: {}", serial, sj, j, msg));
                        }
                    }
                    Err(e) => out.violate("logs_by_id", "error", format!("after run {}: --id {} (run {}): {}", serial, sj, j, e)),
                }
                out.sub_evals += 1;
            }
            // retention
            if dirs.len() > max {
                out.violate("slot_count", "too_many", format!("after run {}: {} run directories {:?}, max_retained_runs = {}", serial, dirs.len(), dirs, max));
            }
            // pointer
            let ptr: Option<Value> = std::fs::read(w.out_dir().join("tracking/run.json")).ok().and_then(|b| serde_json::from_slice(&b).ok());
            if ptr.as_ref().map(|p| p["id"].as_u64()) != Some(Some(slot as u64)) {
                out.violate("pointer", "wrong_id", format!("after run {}: tracking/run.json = {:?}, slot ring says {}", serial, ptr, slot));
            }
            // directory set of this slot (for the non-triviality rule)
            let ds: BTreeSet<String> = w.snapshot_dir(&w.out_dir().join("run").join(slot.to_string())).keys().cloned().collect();
            if serial > max {
                let prev = &dirsets[serial - max - 1];
                if ds.is_subset(prev) && ds.len() < prev.len() {
                    shrunk_slot = true;
                }
            }
            dirsets.push(ds);
            if !out.violations.is_empty() {
                break;
            }
            if let Some((k, m)) = sc.relimit {
                if serial == k {
                    w.spec.max_retained_runs = m;
                    if w.write_config().is_err() {
                        return Outcome::skip("config rewrite failed");
                    }
                    out.trace.push(format!("max_retained_runs {} -> {} after run {}", max, m, serial));
                    out.fault("retention_limit_changed_inside_the_history", 1);
                    max = m;
                    max_ever = max_ever.max(m);
                    general = true;
                }
            }
        }
        let wraps = serial / max;
        out.nontrivial = wraps >= 2 && shrunk_slot;
        out.probe("slot_reused_with_fewer_directories", shrunk_slot as u64);
        out.signature = format!("max={} n={} {:?}", max, sc.runs.len(), sc.runs.iter().map(|r| (r.opts.commands.clone(), r.opts.targets.len(), r.behav.iter().any(|b| b.code != 0))).collect::<Vec<_>>());
        out
    }
    fn shrink(&self, v: &Value) -> Vec<Value> {
        let mut out = vec![];
        if let Ok(sc) = serde_json::from_value::<C12Scenario>(v.clone()) {
            if sc.relimit.is_some() {
                let mut s = sc.clone();
                s.relimit = None;
                out.push(serde_json::to_value(s).unwrap());
            }
            for i in (0..sc.runs.len()).rev() {
                if sc.runs.len() > 1 {
                    let mut s = sc.clone();
                    s.runs.remove(i);
                    if let Some((k, m)) = s.relimit {
                        // keep the change at the same place of the remaining history
                        let completed_before = sc.runs[..i].iter().filter(|r| !r.rejected).count();
                        if completed_before < k && !sc.runs[i].rejected {
                            s.relimit = Some((k.saturating_sub(1).max(1), m));
                        }
                    }
                    out.push(serde_json::to_value(s).unwrap());
                }
            }
            for i in 0..sc.runs.len() {
                if sc.runs[i].behav.iter().any(|b| b.code != 0) {
                    let mut s = sc.clone();
                    for b in s.runs[i].behav.iter_mut() {
                        b.code = 0;
                    }
                    out.push(serde_json::to_value(s).unwrap());
                }
            }
        }
        out
    }
    fn rule(&self) -> String {
        "histories of 3-6 x max_retained_runs completed runs (max in {1,2,3,5}; one history in six rewrites max_retained_runs part-way - afterwards: latest run exact, each of the last max runs shown by some --id once max runs have completed under the new limit, never more directories than the largest limit ever in force), each run with a fresh choice of commands, explicit targets, outputs tagged with the run's serial number, one quarter with a failing child; after every run: result show = printed document, log show = exactly that run's non-empty logs, log show --id for each of the last max runs, directory count, pointer = slot ring model. Round 11: one history in three runs every invocation under a wrong or jumping wall clock. Non-trivial = >= 2 wrap-arounds and a slot whose new occupant has a strict subset of the old occupant's directories; distinct = (max, per-run commands/targets/failure)".into()
    }
    fn components(&self) -> Value {
        components()
    }
    fn assumptions(&self) -> Vec<String> {
        vec!["'run' means an invocation that completed (exit 0 or 1); aborted invocations are not part of the histories".into(), "outputs are newline-terminated text so that log show blocks parse unambiguously".into()]
    }
}

// ---------------------------------------------------------------------------------------------
// C13

#[derive(Serialize, Deserialize, Clone, Debug)]
pub struct C13Scenario {
    pub spec: WorldSpec,
    pub prefix: Vec<RunStep>,
    pub checkpoint: bool,
    pub crash_run: RunStep,
    pub follow_up: RunStep,
    pub rand_seed: u64,
    /// seed for the sampling of crash points (quick tier)
    pub sample_seed: u64,
    /// 0 = every crash point
    pub max_points: usize,
    /// explicit crash points (replay / minimised): overrides enumeration when non-empty
    #[serde(default)]
    pub only_points: Vec<CrashPoint>,
    /// the configuration's max_retained_runs is rewritten to this value after the prefix runs: the run
    /// that is killed is the first one under the new limit
    #[serde(default)]
    pub retained_after_prefix: Option<usize>,
    /// this many runs in a row are killed (while their children execute) before the run whose crash points
    /// are enumerated: the store then holds unfinished slots next to the last completed run
    #[serde(default)]
    pub killed_before: usize,
    /// (only with a checkpoint) the last completed run before the crash is one that selects nothing: no target
    /// changed since the checkpoint and no -t was given. It is a completed run like any other.
    #[serde(default)]
    pub noop_before_crash: bool,
}

#[derive(Serialize, Deserialize, Clone, Debug, PartialEq)]
pub enum CrashPoint {
    Fs(String),
    AtPoint { name: String, nth: usize },
    AtStep { n: usize },
}

pub struct C13;

fn gen_c13(seed: u64, idx: usize, tier: Tier) -> C13Scenario {
    let mut rng = Rng::new(scenario_seed(seed, "C13", idx));
    // one history in five changes the retention limit before the run that is killed
    let relimit = rng.chance(1, 5);
    let max = if relimit { *rng.pick(&[3usize, 5, 8, 2]) } else { *rng.pick(&[2usize, 2, 3, 5]) };
    let nt = rng.range(1, 3);
    let ncmd = rng.range(1, 2);
    let mut spec = flat_world(&mut rng, nt, ncmd, max, 0, true);
    {
        // one history in three: every invocation (earlier runs, the killed run, the reads, the next run) under
        // another wrong or jumping wall clock (own generator: existing seeds keep their histories)
        let mut crng = Rng::new(scenario_seed(seed, "C13-clock", idx));
        if crng.chance(1, 3) {
            spec.clock_plan = crate::world::gen_clock_plan(&mut crng);
        }
    }
    let np = if relimit { rng.range(1, max.min(6)) } else { rng.below(4) };
    let prefix = (1..=np).map(|i| gen_step(&mut rng, &spec, i, true, ncmd)).collect();
    let crash_run = gen_step(&mut rng, &spec, 90, true, ncmd);
    let mut follow_up = gen_step(&mut rng, &spec, 99, false, ncmd);
    for b in follow_up.behav.iter_mut() {
        b.code = 0;
    }
    let retained_after_prefix = if relimit {
        let cands: Vec<usize> = [2usize, 3, 4, 6].iter().cloned().filter(|&m| m != max).collect();
        Some(*rng.pick(&cands))
    } else {
        None
    };
    C13Scenario {
        spec,
        prefix,
        checkpoint: rng.chance(1, 2),
        crash_run,
        follow_up,
        rand_seed: rng.next_u64() % 1_000_000,
        sample_seed: rng.next_u64(),
        max_points: if tier == Tier::Thorough { 0 } else { 10 },
        only_points: vec![],
        retained_after_prefix,
        // one history in four: 1..max earlier runs were killed too
        killed_before: if rng.chance(1, 4) { rng.range(1, max.min(4)) } else { 0 },
        noop_before_crash: rng.chance(1, 3),
    }
}

#[derive(Clone, Debug, PartialEq)]
struct Snapshot {
    result: Result<Value, String>,
    logs: Result<BTreeMap<(String, String, String), Vec<u8>>, String>,
    checkpoint: Result<Value, String>,
}

fn err_kind(o: &crate::world::CliOut) -> String {
    o.err_json().map(|e| e["type"].as_str().unwrap_or("?").to_string()).unwrap_or_else(|| format!("exit {:?}", o.code))
}

fn snapshot(w: &World) -> Snapshot {
    let rs = w.cli(&["result", "show"]);
    let result = match (rs.code, rs.json()) {
        (Some(0), Some(d)) => Ok(canon_doc(&d)),
        _ => Err(err_kind(&rs)),
    };
    let logs = show_logs(w, None).map_err(|e| {
        if e.contains("tracking_log_info_not_found") || e.contains("No such file") { "none".to_string() } else { e }
    });
    let cp = w.cli(&["checkpoint", "show"]);
    let checkpoint = match (cp.code, cp.json()) {
        (Some(0), Some(d)) => Ok(canon_doc(&d)),
        _ => Err(err_kind(&cp)),
    };
    Snapshot { result, logs, checkpoint }
}

fn copy_dir(from: &std::path::Path, to: &std::path::Path) -> std::io::Result<()> {
    std::fs::create_dir_all(to)?;
    for e in std::fs::read_dir(from)? {
        let e = e?;
        let p = e.path();
        let d = to.join(e.file_name());
        if p.is_dir() {
            copy_dir(&p, &d)?;
        } else {
            std::fs::copy(&p, &d)?;
        }
    }
    Ok(())
}

fn restore(w: &World, backup: &std::path::Path) {
    let _ = std::fs::remove_dir_all(w.out_dir());
    if backup.exists() {
        let _ = copy_dir(backup, &w.out_dir());
    }
}

impl Property for C13 {
    fn id(&self) -> &'static str {
        "C13"
    }
    fn level(&self) -> &'static str {
        "fault_enumeration"
    }
    fn count(&self, tier: Tier) -> usize {
        match tier {
            Tier::Quick => 96,
            Tier::Thorough => 600,
        }
    }
    fn generate(&self, seed: u64, idx: usize, tier: Tier) -> Value {
        serde_json::to_value(gen_c13(seed, idx, tier)).unwrap()
    }
    fn execute(&self, v: &Value) -> Outcome {
        let sc: C13Scenario = match serde_json::from_value(v.clone()) {
            Ok(s) => s,
            Err(e) => return Outcome::skip(&format!("bad scenario {}", e)),
        };
        let mut w = match World::create(&sc.spec, true) {
            Ok(w) => w,
            Err(e) => return Outcome::skip(&format!("world: {}", e)),
        };
        w.set_rand_seed(sc.rand_seed);
        let hang = Duration::from_millis(default_hang_ms());
        let mut out = Outcome::default();
        // one checkpointed history in three: the checkpoint carries a pending entry for an uncommitted file which is
        // edited again afterwards (a stale entry), every target has an uncommitted edit, and the run that is killed
        // names no targets (it selects the changed ones, i.e. all): a run reads the checkpoint, it never writes it
        let stale_pending = sc.checkpoint && sc.rand_seed % 3 == 0;
        if sc.checkpoint {
            if stale_pending {
                let _ = w.write_file(&format!("{}/pending-note.txt", sc.spec.targets[0].path), "recorded as pending\n");
            }
            let o = if stale_pending { w.cli(&["checkpoint", "update", "-p"]) } else { w.cli(&["checkpoint", "update"]) };
            if o.code != Some(0) {
                return Outcome::skip("checkpoint update failed");
            }
            if stale_pending {
                let _ = w.write_file(&format!("{}/pending-note.txt", sc.spec.targets[0].path), "edited after the update\n");
                for t in &sc.spec.targets {
                    let _ = w.write_file(&format!("{}/file.txt", t.path), "edited after the update\n");
                }
                out.fault("checkpoint_with_a_stale_pending_entry_and_a_run_that_selects_by_change", 1);
            }
        }
        for (i, st) in sc.prefix.iter().enumerate() {
            let mut s = step_script(st, sc.rand_seed + i as u64);
            if s.opts.targets.is_empty() && sc.checkpoint {
                // with a checkpoint and no edits a target-less run would select nothing
                s.opts.targets = sc.spec.targets.iter().map(|t| t.path.clone()).collect();
            }
            let tr = drive_run(&mut w, "M1", &s, hang);
            if tr.hang.is_some() || !(tr.code() == Some(0) || tr.code() == Some(1)) {
                return Outcome::skip("prefix_run_did_not_complete(other property)");
            }
            out.trace.push(format!("prefix run {} exit {:?}", i + 1, tr.code()));
        }
        if let Some(m) = sc.retained_after_prefix {
            w.spec.max_retained_runs = m;
            if w.write_config().is_err() {
                return Outcome::skip("config rewrite failed");
            }
            out.fault("retention_limit_changed_before_the_killed_run", 1);
            out.trace.push(format!("max_retained_runs {} -> {}", sc.spec.max_retained_runs, m));
        }
        if sc.noop_before_crash && sc.checkpoint && !stale_pending {
            let ns = RunScript { rand_seed: Some(sc.rand_seed), ..RunScript::simple(RunOpts { commands: sc.crash_run.opts.commands.clone(), ..Default::default() }) };
            let tr = drive_run(&mut w, "M1", &ns, hang);
            if tr.hang.is_some() || tr.code() != Some(0) || !tr.helpers.is_empty() {
                return Outcome::skip("noop_run_was_not_a_noop(harness)");
            }
            out.fault("last_completed_run_selected_nothing", 1);
            out.trace.push("a run that selects nothing completed".into());
        }
        if sc.killed_before > 0 {
            let before = snapshot(&w);
            for k in 0..sc.killed_before {
                let mut ks = step_script(&sc.crash_run, sc.rand_seed + 30 + k as u64);
                if ks.opts.targets.is_empty() && sc.checkpoint {
                    ks.opts.targets = sc.spec.targets.iter().map(|t| t.path.clone()).collect();
                }
                ks.kill = Some(Kill::AtPoint { name: "run.group.spawned".into(), nth: 1 });
                let tr = drive_run(&mut w, "M0", &ks, hang);
                let died = tr.exit.as_ref().map(|e| e.signal == Some(9)).unwrap_or(false);
                if !died {
                    return Outcome::skip("earlier_killed_run_not_killed(harness)");
                }
                out.fault("earlier_run_killed_while_its_children_ran", 1);
                out.sub_evals += 1;
                let after = snapshot(&w);
                if after.result != before.result || after.logs != before.logs || after.checkpoint != before.checkpoint {
                    out.violate("result_after_crash", "after_several_killed_runs", format!("after {} killed run(s) in a row the recorded state changed: result {:?} -> {:?}", k + 1, short(&before.result), short(&after.result)));
                    return out;
                }
            }
            out.trace.push(format!("{} earlier run(s) killed at run.group.spawned", sc.killed_before));
        }
        // one history in five: the files of the latest completed run carry old timestamps and those of the older
        // retained runs timestamps from tomorrow (a clock that was ahead and has been corrected, a restored backup):
        // which run is the latest is what the pointer says, not what the file system's timestamps suggest
        let skew = sc.rand_seed % 5 == 1;
        let skew_mtimes = |w: &World| {
            let latest = std::fs::read_to_string(w.out_dir().join("tracking/run.json")).ok().and_then(|t| serde_json::from_str::<Value>(&t).ok()).and_then(|v| v["id"].as_u64()).map(|n| n.to_string());
            let now = std::time::SystemTime::now().duration_since(std::time::UNIX_EPOCH).map(|d| d.as_secs() as i64).unwrap_or(1_800_000_000);
            if let Ok(rd) = std::fs::read_dir(w.out_dir().join("run")) {
                for e in rd.flatten() {
                    let is_latest = Some(e.file_name().to_string_lossy().into_owned()) == latest;
                    let t = if is_latest { now - 10 * 86_400 } else { now + 86_400 };
                    let _ = crate::gitmodel::set_mtime(&e.path().join("result.json.zst"), t);
                    let _ = crate::gitmodel::set_mtime(&e.path(), t);
                }
            }
        };
        if skew {
            skew_mtimes(&w);
            out.fault("file_timestamps_of_retained_runs_out_of_order", 1);
        }
        let backup = w.root.join(".backup-out");
        let _ = std::fs::remove_dir_all(&backup);
        if w.out_dir().exists() {
            if copy_dir(&w.out_dir(), &backup).is_err() {
                return Outcome::skip("backup failed");
            }
        }
        let s0 = snapshot(&w);
        let mut crash_script = step_script(&sc.crash_run, sc.rand_seed + 50);
        if stale_pending {
            crash_script.opts.targets.clear();
        } else if crash_script.opts.targets.is_empty() && sc.checkpoint {
            crash_script.opts.targets = sc.spec.targets.iter().map(|t| t.path.clone()).collect();
        }
        // step_script's order (a failing child is released last) keeps every status of the run a
        // function of the script, so the recording pass predicts the completed run exactly
        // ---- recording pass: the same run, uninterrupted, from the same state
        let fslog = w.root.join(".fs.log");
        let _ = std::fs::remove_file(&fslog);
        let mut rec = crash_script.clone();
        rec.fs_log = Some(fslog.to_string_lossy().into_owned());
        let rtr = drive_run(&mut w, "M1", &rec, hang);
        if rtr.hang.is_some() || !(rtr.code() == Some(0) || rtr.code() == Some(1)) {
            return Outcome::skip("recording_run_did_not_complete(other property)");
        }
        let s_done = snapshot(&w); // what a completed crash run looks like
        let mut points: Vec<CrashPoint> = vec![];
        let log = std::fs::read_to_string(&fslog).unwrap_or_default();
        // Effects are addressed by (class, k); each class is touched by one thread, so the coordinate is a function
        // of the scenario - except for how many write() calls a log archive receives, which depends on how the
        // flush timer happened to chunk the child's output. The canonical list (sampled from, and counted in the
        // trace) therefore holds every effect except the 2nd and later writes of a log archive; those are
        // executed in addition when every point is executed.
        let mut effs: Vec<(String, usize, String)> = vec![];
        for l in log.lines() {
            let f: Vec<&str> = l.splitn(7, ' ').collect();
            if f.len() < 7 {
                continue;
            }
            effs.push((f[3].to_string(), f[4].parse().unwrap_or(0), f[2].to_string()));
        }
        effs.sort();
        effs.dedup();
        let mut effects = 0;
        let mut extra_points: Vec<CrashPoint> = vec![];
        let mut log_writes_seen: BTreeMap<String, usize> = BTreeMap::new();
        for (cls, k, op) in &effs {
            let mut timing_dependent = false;
            if cls.starts_with("log:") && op == "write" {
                let n = log_writes_seen.entry(cls.clone()).or_insert(0);
                *n += 1;
                timing_dependent = *n >= 2;
            }
            let dst = if timing_dependent { &mut extra_points } else { effects += 1; &mut points };
            dst.push(CrashPoint::Fs(format!("{}:{}:before", cls, k)));
            dst.push(CrashPoint::Fs(format!("{}:{}:after", cls, k)));
            if op == "write" {
                dst.push(CrashPoint::Fs(format!("{}:{}:torn", cls, k)));
            }
        }
        out.probe("further_log_archive_writes_recorded", (extra_points.len() / 3) as u64);
        if std::env::var("VERIF_DEBUG_EFFECTS").is_ok() {
            out.advisories.push(format!("effects: {:?}", effs));
        }
        let mut seen: BTreeMap<String, usize> = BTreeMap::new();
        for p in &rtr.points {
            let n = seen.entry(p.name.clone()).or_insert(0);
            *n += 1;
            points.push(CrashPoint::AtPoint { name: p.name.clone(), nth: *n });
        }
        for n in 1..=rtr.steps {
            points.push(CrashPoint::AtStep { n });
        }
        let total_points = points.len();
        // the number of effects is not part of the canonical trace: what a run has to wipe in a slot that an earlier,
        // killed run left behind depends on how far that run's compressor threads had got when it died
        out.trace.push(format!("recorded filesystem effects, {} points, {} steps", rtr.points.len(), rtr.steps));
        out.probe("filesystem_effects_recorded", effects as u64);
        out.probe("crash_points_enumerated", total_points as u64);
        if !sc.only_points.is_empty() {
            points = sc.only_points.clone();
        } else if sc.max_points == 0 {
            points.extend(extra_points);
        } else if sc.max_points > 0 && points.len() > sc.max_points {
            // seeded sample, always keeping the effects around the pointer and result files
            let mut rng = Rng::new(sc.sample_seed);
            let (mut keep, mut rest): (Vec<CrashPoint>, Vec<CrashPoint>) = points.into_iter().partition(|p| matches!(p, CrashPoint::Fs(s) if s.starts_with("ptr:") || s.starts_with("res:")));
            rng.shuffle(&mut rest);
            let room = sc.max_points.saturating_sub(keep.len().min(sc.max_points / 2));
            rng.shuffle(&mut keep);
            keep.truncate(sc.max_points / 2);
            rest.truncate(room);
            keep.extend(rest);
            points = keep;
        }
        // under a changed limit the directories of the old ring legitimately outlive the change
        let max = if sc.retained_after_prefix.is_some() { usize::MAX } else { sc.spec.max_retained_runs };
        for cp in &points {
            restore(&w, &backup);
            if skew {
                skew_mtimes(&w);
            }
            let mut cs = crash_script.clone();
            match cp {
                CrashPoint::Fs(c) => cs.fs_crash = Some(c.clone()),
                CrashPoint::AtPoint { name, nth } => cs.kill = Some(Kill::AtPoint { name: name.clone(), nth: *nth }),
                CrashPoint::AtStep { n } => cs.kill = Some(Kill::AtStep { n: *n }),
            }
            let tr = drive_run(&mut w, "M1", &cs, hang);
            out.sub_evals += 1;
            let died = tr.exit.as_ref().map(|e| e.signal == Some(9)).unwrap_or(false);
            if !died {
                out.probe("crash_point_not_reached", 1);
                continue;
            }
            let kind = match cp {
                CrashPoint::Fs(c) => {
                    let cls = c.split(':').next().unwrap_or("");
                    let mode = c.rsplit(':').next().unwrap_or("");
                    if c.starts_with("ptr:1:after") || c.starts_with("ptr:2:before") {
                        out.probe("crash_between_trunc_and_write", 1);
                    }
                    format!("fs_{}_{}", cls, mode)
                }
                CrashPoint::AtPoint { .. } => "sigkill_at_parked_point".to_string(),
                CrashPoint::AtStep { .. } => "sigkill_between_helper_steps".to_string(),
            };
            out.fault(&kind, 1);
            let s1 = snapshot(&w);
            let desc = format!("{:?}", cp);
            // the previous record must be intact; or the killed run completed (pointer already advanced)
            let strip = |r: &Result<Value, String>| r.clone().map(|mut v| { strip_volatile(&mut v); v });
            let completed = s1.result.is_ok() && strip(&s1.result) == strip(&s_done.result) && s1.result != s0.result;
            if s1.result != s0.result && !completed {
                let class = match &s1.result {
                    Err(k) if s0.result.is_ok() => format!("lost_{}", k),
                    Err(k) => format!("error_changed_{}", k),
                    Ok(_) => "other_document".to_string(),
                };
                out.violate("result_after_crash", &class, format!("crash {}: `result show` was {:?} before the crash and is {:?} after it", desc, short(&s0.result), short(&s1.result)));
            }
            let want_logs = if completed { &s_done.logs } else { &s0.logs };
            if &s1.logs != want_logs {
                out.violate("logs_after_crash", "changed", format!("crash {}: `log show` changed: before {:?}, after {:?}", desc, want_logs.as_ref().map(|m| m.keys().map(fmt_key).collect::<Vec<_>>()), s1.logs.as_ref().map(|m| m.keys().map(fmt_key).collect::<Vec<_>>())));
            }
            if s1.checkpoint != s0.checkpoint {
                out.violate("checkpoint_after_crash", "changed", format!("crash {}: checkpoint show changed from {:?} to {:?}", desc, s0.checkpoint, s1.checkpoint));
            }
            // the next run succeeds normally and becomes the latest
            let mut fs = step_script(&sc.follow_up, sc.rand_seed + 70);
            if fs.opts.targets.is_empty() && sc.checkpoint {
                fs.opts.targets = sc.spec.targets.iter().map(|t| t.path.clone()).collect();
            }
            let ftr = drive_run(&mut w, "M2", &fs, hang);
            if ftr.hang.is_some() || ftr.code() != Some(0) {
                let e = ftr.stderr_str();
                let class = if e.contains("\"json\"") { "json_error" } else { "failed" };
                out.violate("next_run", class, format!("crash {}: the next run did not succeed: exit {:?} hang {:?} {}", desc, ftr.code(), ftr.hang, e.trim()));
            } else {
                let s2 = snapshot(&w);
                let printed = ftr.result_json().map(|d| canon_doc(&d));
                if s2.result.as_ref().ok() != printed.as_ref() {
                    out.violate("next_run", "not_latest", format!("crash {}: after the next run `result show` is not that run's document", desc));
                }
                let want = expected_blocks(&ftr);
                if s2.logs.as_ref().ok() != Some(&want) {
                    out.violate("next_run", "logs_not_latest", format!("crash {}: after the next run `log show` is not that run's logs", desc));
                }
                let dirs = std::fs::read_dir(w.out_dir().join("run")).map(|r| r.count()).unwrap_or(0);
                if dirs > max {
                    out.violate("next_run", "too_many_slots", format!("crash {}: {} run directories > max_retained_runs {}", desc, dirs, max));
                }
            }
            if !out.violations.is_empty() {
                // remember which point failed so that replay/minimisation can target it
                out.trace.push(format!("failing crash point: {}", desc));
                break;
            }
        }
        out.probe("effects_enumerated", effects);
        out.probe("crash_points_available", total_points as u64);
        out.nontrivial = out.sub_evals > 0 && (s0.result.is_ok() || sc.checkpoint);
        out.signature = format!("{:?}|{}|{:?}|{}", sc.spec.targets.len(), sc.prefix.len(), sc.crash_run.opts, sc.checkpoint) + &format!("|{:?}", sc.retained_after_prefix);
        out.steps = out.sub_evals;
        out
    }
    fn shrink(&self, v: &Value) -> Vec<Value> {
        let mut outv = vec![];
        if let Ok(sc) = serde_json::from_value::<C13Scenario>(v.clone()) {
            // pin the failing crash point first: re-execute to learn it
            if sc.only_points.is_empty() {
                let o = self.execute(v);
                if let Some(l) = o.trace.iter().find(|l| l.starts_with("failing crash point: ")) {
                    if let Some(cp) = parse_cp(&l["failing crash point: ".len()..]) {
                        let mut s = sc.clone();
                        s.only_points = vec![cp];
                        outv.push(serde_json::to_value(s).unwrap());
                    }
                }
            }
            for i in (0..sc.prefix.len()).rev() {
                let mut s = sc.clone();
                s.prefix.remove(i);
                outv.push(serde_json::to_value(s).unwrap());
            }
            if sc.checkpoint {
                let mut s = sc.clone();
                s.checkpoint = false;
                outv.push(serde_json::to_value(s).unwrap());
            }
            if sc.retained_after_prefix.is_some() {
                let mut s = sc.clone();
                s.retained_after_prefix = None;
                outv.push(serde_json::to_value(s).unwrap());
            }
            if sc.killed_before > 0 {
                let mut s = sc.clone();
                s.killed_before -= 1;
                outv.push(serde_json::to_value(s).unwrap());
            }
            if sc.noop_before_crash {
                let mut s = sc.clone();
                s.noop_before_crash = false;
                outv.push(serde_json::to_value(s).unwrap());
            }
            if sc.crash_run.behav.iter().any(|b| !b.outs.is_empty() || b.code != 0) {
                let mut s = sc.clone();
                for b in s.crash_run.behav.iter_mut() {
                    b.outs.clear();
                    b.code = 0;
                }
                outv.push(serde_json::to_value(s).unwrap());
            }
        }
        outv
    }
    fn rule(&self) -> String {
        "history prefix of 0-3 completed runs and an optional checkpoint (max_retained_runs >= 2; one history in five has 1-6 runs under one limit and rewrites max_retained_runs - lowered or raised - before the run that is killed; one history in four has 1-4 earlier runs killed in a row while their children ran, each followed by the same comparison); a recording pass lists every filesystem effect of the run to be killed (LD_PRELOAD shim), every parked point and every controller decision step; the run is then re-executed from the restored state and killed before / after each effect, after half of each write (torn), at each parked point and between helper steps (quick: seeded sample of 10 points per scenario always including effects on the pointer and result files; thorough: every point). Oracle: result show / log show / checkpoint show unchanged (or the killed run's own complete record once the pointer update has completed), next run succeeds and becomes the latest within max slots. Rounds 11-12: one history in three under wrong and jumping wall clocks; one checkpointed history in three has a stale pending entry, uncommitted edits in every target and a killed run that selects by change (a run never writes the checkpoint); the crash points are drawn from a canonical effect list (every effect except the 2nd and later writes of a log archive, whose number depends on the flush timer). Non-trivial = state existed to be damaged (a completed run or a checkpoint) and at least one crash was executed; distinct = (targets, prefix length, crash-run options, checkpoint)".into()
    }
    fn components(&self) -> Value {
        components()
    }
    fn assumptions(&self) -> Vec<String> {
        vec![
            "a crash is SIGKILL of the monorail process; children die with its process group; tmpfs has no power-loss reordering, so 'durable' = 'written'".into(),
            "a crash that lands after the pointer update completed counts as a completed run (only its stdout is lost)".into(),
            "each effect class of the shim is touched by one thread, so (class, k) is a deterministic coordinate".into(),
        ]
    }
    fn extra_coverage(&self, outs: &[(usize, Outcome)]) -> Value {
        let execs: u64 = outs.iter().map(|o| o.1.sub_evals).sum();
        json!({"crash_points_executed": execs})
    }
}

fn short<T: std::fmt::Debug>(r: &Result<T, String>) -> String {
    match r {
        Ok(v) => {
            let s = format!("{:?}", v);
            s.chars().take(160).collect()
        }
        Err(e) => format!("error:{}", e),
    }
}

fn parse_cp(s: &str) -> Option<CrashPoint> {
    // Debug rendering of CrashPoint
    if let Some(r) = s.strip_prefix("Fs(\"") {
        return Some(CrashPoint::Fs(r.trim_end_matches("\")").to_string()));
    }
    if let Some(r) = s.strip_prefix("AtPoint { name: \"") {
        let (name, rest) = r.split_once("\", nth: ")?;
        let nth = rest.trim_end_matches(" }").parse().ok()?;
        return Some(CrashPoint::AtPoint { name: name.to_string(), nth });
    }
    if let Some(r) = s.strip_prefix("AtStep { n: ") {
        return Some(CrashPoint::AtStep { n: r.trim_end_matches(" }").parse().ok()? });
    }
    None
}
