//! Reference models (oracles). They operate on the generated scenario, never on monorail's internals.
use crate::world::WorldSpec;
use std::collections::{BTreeMap, BTreeSet};

pub fn comps(p: &str) -> Vec<&str> {
    p.split('/').filter(|c| !c.is_empty()).collect()
}

/// `p` equals `dir` or lies inside it, comparing whole path components.
pub fn inside_or_eq(p: &str, dir: &str) -> bool {
    let a = comps(p);
    let b = comps(dir);
    a.len() >= b.len() && a[..b.len()] == b[..]
}

/// R-dep: T -> U iff U != T and (U encloses T, or some `uses` entry of T equals or lies inside U).
pub fn direct_deps(spec: &WorldSpec) -> BTreeMap<String, BTreeSet<String>> {
    let mut m = BTreeMap::new();
    for t in &spec.targets {
        let mut s = BTreeSet::new();
        for u in &spec.targets {
            if u.path == t.path {
                continue;
            }
            if inside_or_eq(&t.path, &u.path) || t.uses.iter().any(|x| inside_or_eq(x, &u.path)) {
                s.insert(u.path.clone());
            }
        }
        m.insert(t.path.clone(), s);
    }
    m
}

pub fn closure(deps: &BTreeMap<String, BTreeSet<String>>, roots: &BTreeSet<String>) -> BTreeSet<String> {
    let mut out = roots.clone();
    let mut work: Vec<String> = roots.iter().cloned().collect();
    while let Some(t) = work.pop() {
        if let Some(ds) = deps.get(&t) {
            for d in ds {
                if out.insert(d.clone()) {
                    work.push(d.clone());
                }
            }
        }
    }
    out
}

/// all targets T transitively depends on (excluding T itself unless on a cycle)
pub fn trans_deps(deps: &BTreeMap<String, BTreeSet<String>>, t: &str) -> BTreeSet<String> {
    let mut out = BTreeSet::new();
    let mut work: Vec<String> = deps.get(t).map(|s| s.iter().cloned().collect()).unwrap_or_default();
    while let Some(x) = work.pop() {
        if out.insert(x.clone()) {
            if let Some(ds) = deps.get(&x) {
                work.extend(ds.iter().cloned());
            }
        }
    }
    out
}

pub fn is_acyclic(deps: &BTreeMap<String, BTreeSet<String>>) -> bool {
    deps.keys().all(|t| !trans_deps(deps, t).contains(t))
}

/// Does `a` share a raw string prefix relation with `b` that is not a component-wise nesting?
pub fn byte_prefix_only(a: &str, b: &str) -> bool {
    (a.starts_with(b) && !inside_or_eq(a, b)) || (b.starts_with(a) && !inside_or_eq(b, a))
}

#[cfg(test)]
mod tests {
    use super::*;
    use crate::world::TargetSpec;
    fn t(p: &str, uses: &[&str]) -> TargetSpec {
        TargetSpec {
            path: p.into(),
            uses: uses.iter().map(|s| s.to_string()).collect(),
            ..Default::default()
        }
    }
    #[test]
    fn rdep() {
        let spec = WorldSpec {
            targets: vec![t("app", &[]), t("app2", &["lib/x.txt"]), t("lib", &[]), t("app/web", &[])],
            ..Default::default()
        };
        let d = direct_deps(&spec);
        assert!(d["app2"].contains("lib"));
        assert!(!d["app2"].contains("app"));
        assert!(d["app/web"].contains("app"));
        assert!(d["app"].is_empty());
        assert!(is_acyclic(&d));
        assert!(byte_prefix_only("app2", "app"));
        assert!(!byte_prefix_only("app/web", "app"));
    }
}
