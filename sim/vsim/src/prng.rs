//! In-tree PRNG (SplitMix64 -> xoshiro256**), so the stream never changes with a crate upgrade.
#[derive(Clone, Debug)]
pub struct Rng {
    s: [u64; 4],
}

pub fn splitmix(x: &mut u64) -> u64 {
    *x = x.wrapping_add(0x9E3779B97F4A7C15);
    let mut z = *x;
    z = (z ^ (z >> 30)).wrapping_mul(0xBF58476D1CE4E5B9);
    z = (z ^ (z >> 27)).wrapping_mul(0x94D049BB133111EB);
    z ^ (z >> 31)
}

/// Mix several integers into one seed (scenario k of property P under VERIF_SEED).
pub fn mix(parts: &[u64]) -> u64 {
    let mut h: u64 = 0x243F6A8885A308D3;
    for p in parts {
        let mut x = h ^ p.wrapping_mul(0x9E3779B97F4A7C15);
        h = splitmix(&mut x);
    }
    h
}

pub fn hash_str(s: &str) -> u64 {
    // FNV-1a 64
    let mut h: u64 = 0xcbf29ce484222325;
    for b in s.as_bytes() {
        h ^= *b as u64;
        h = h.wrapping_mul(0x100000001b3);
    }
    h
}

impl Rng {
    pub fn new(seed: u64) -> Self {
        let mut x = seed;
        let s = [splitmix(&mut x), splitmix(&mut x), splitmix(&mut x), splitmix(&mut x)];
        Rng { s }
    }
    pub fn next_u64(&mut self) -> u64 {
        let r = self.s[1].wrapping_mul(5).rotate_left(7).wrapping_mul(9);
        let t = self.s[1] << 17;
        self.s[2] ^= self.s[0];
        self.s[3] ^= self.s[1];
        self.s[1] ^= self.s[2];
        self.s[0] ^= self.s[3];
        self.s[2] ^= t;
        self.s[3] = self.s[3].rotate_left(45);
        r
    }
    /// uniform in 0..n (n > 0)
    pub fn below(&mut self, n: usize) -> usize {
        if n <= 1 {
            return 0;
        }
        (self.next_u64() % (n as u64)) as usize
    }
    /// uniform in lo..=hi
    pub fn range(&mut self, lo: usize, hi: usize) -> usize {
        lo + self.below(hi - lo + 1)
    }
    pub fn chance(&mut self, num: u32, den: u32) -> bool {
        (self.next_u64() % den as u64) < num as u64
    }
    pub fn pick<'a, T>(&mut self, v: &'a [T]) -> &'a T {
        &v[self.below(v.len())]
    }
    pub fn shuffle<T>(&mut self, v: &mut [T]) {
        for i in (1..v.len()).rev() {
            let j = self.below(i + 1);
            v.swap(i, j);
        }
    }
    pub fn fork(&mut self) -> Rng {
        Rng::new(self.next_u64())
    }
}
