//! Run worlds: generated configurations + one controlled `run`, shared by C04 C05 C06 C11 C16.
use crate::harness::Outcome;
use crate::models;
use crate::prng::Rng;
use crate::proto::hex;
use crate::rundrv::{Behav, OutStep, RunOpts, RunScript, RunTrace, Strategy};
use crate::world::{CmdFile, TargetSpec, World, WorldSpec};
use serde::{Deserialize, Serialize};
use serde_json::Value;
use std::collections::{BTreeMap, BTreeSet};
use std::time::Duration;

pub const COMMANDS: [&str; 4] = ["build", "test", "lint", "fmt"];

#[derive(Clone, Debug)]
pub struct GenParams {
    pub min_t: usize,
    pub max_t: usize,
    pub nest_pct: u32,
    pub uses_pct: u32,
    pub max_cmds: usize,
    pub min_cmds: usize,
    pub undefined_pct: u32,
    pub nonexec_pct: u32,
    pub shuffle_decl_pct: u32,
    pub sequences_pct: u32,
    /// sibling names that share a raw string prefix (app, app2, app-web)
    pub prefix_names: bool,
    pub wide_group: Option<usize>,
}
impl Default for GenParams {
    fn default() -> Self {
        GenParams {
            min_t: 2,
            max_t: 8,
            nest_pct: 25,
            uses_pct: 45,
            max_cmds: 3,
            min_cmds: 1,
            undefined_pct: 0,
            nonexec_pct: 0,
            shuffle_decl_pct: 30,
            sequences_pct: 30,
            prefix_names: false,
            wide_group: None,
        }
    }
}

pub fn gen_world(rng: &mut Rng, p: &GenParams) -> WorldSpec {
    let n = rng.range(p.min_t, p.max_t);
    let mut targets: Vec<TargetSpec> = vec![];
    let mut files: Vec<(String, String)> = vec![];
    let prefix_pool = ["app", "app2", "app-web", "app2x", "lib", "lib-core", "libs"];
    let mut prefix_used = 0;
    for i in 0..n {
        let can_nest: Vec<usize> = (0..targets.len()).filter(|&j| models::comps(&targets[j].path).len() < 3).collect();
        let path = if !can_nest.is_empty() && rng.chance(p.nest_pct, 100) {
            let par = can_nest[rng.below(can_nest.len())];
            format!("{}/n{:02}", targets[par].path, i)
        } else if p.prefix_names && prefix_used < prefix_pool.len() && rng.chance(70, 100) {
            prefix_used += 1;
            prefix_pool[prefix_used - 1].to_string()
        } else if rng.chance(1, 8) {
            // a long directory name with multi-byte characters wherever a fixed byte index, counted from
            // the start or from the end, could fall (the ASCII runs at both ends shift the alignment)
            format!("t{:02}-{}données-日本語-каталог-проекта-очень-длинное-имя{}", i, "x".repeat(rng.below(4)), "y".repeat(rng.below(4)))
        } else if rng.chance(1, 10) {
            // a hidden directory (`.github`, `.ci`): a leading dot is part of the name
            format!(".h{:02}", i)
        } else {
            format!("t{:02}", i)
        };
        let mut uses = vec![];
        if i > 0 {
            let k = if rng.chance(p.uses_pct, 100) { rng.range(1, 2.min(i)) } else { 0 };
            for _ in 0..k {
                let u = &targets[rng.below(i)].path;
                let e = match rng.below(4) {
                    0 | 1 => u.clone(),
                    2 => format!("{}/file.txt", u),
                    _ => {
                        let f = format!("shared/s{}.txt", rng.below(3));
                        if !files.iter().any(|(x, _)| *x == f) {
                            files.push((f.clone(), "shared\n".into()));
                        }
                        f
                    }
                };
                if !uses.contains(&e) {
                    uses.push(e);
                }
            }
        }
        targets.push(TargetSpec {
            path,
            uses,
            ..Default::default()
        });
    }
    if let Some(wn) = p.wide_group {
        // a wide layer of independent targets
        for i in 0..wn {
            targets.push(TargetSpec {
                path: format!("w{:02}", i),
                ..Default::default()
            });
        }
        // and one target that depends on every one of them (the next layer)
        if wn >= 8 {
            targets.push(TargetSpec {
                path: "wtop".into(),
                uses: (0..wn).map(|i| format!("w{:02}", i)).collect(),
                ..Default::default()
            });
        }
    }
    let ncmd = rng.range(p.min_cmds.max(1), p.max_cmds);
    let mut cmds: Vec<&str> = COMMANDS.to_vec();
    rng.shuffle(&mut cmds);
    cmds.truncate(ncmd);
    let mut cmd_files = vec![];
    for t in &targets {
        for c in &cmds {
            if rng.chance(p.undefined_pct, 100) {
                // sometimes a near miss sits in the command directory: `build.alt.sh` has the stem
                // `build.alt`, it does not define `build`
                if rng.chance(2, 5) {
                    cmd_files.push(CmdFile {
                        target: t.path.clone(),
                        command: format!("{}__decoy", c),
                        rel: format!("{}/monorail/cmd/{}.alt.sh", t.path, c),
                        exec: true,
                        broken: false,
                    });
                }
                continue;
            }
            cmd_files.push(CmdFile {
                target: t.path.clone(),
                command: c.to_string(),
                rel: WorldSpec::default_cmd_rel(&t.path, c),
                exec: !rng.chance(p.nonexec_pct, 100),
                broken: false,
            });
        }
    }
    let mut sequences = vec![];
    if cmds.len() >= 2 && rng.chance(p.sequences_pct, 100) {
        if cmds.len() >= 3 && rng.chance(1, 2) {
            // several sequences over disjoint commands (a command never occurs twice in one run)
            let cut = rng.range(1, cmds.len() - 1);
            sequences.push(("ci".to_string(), cmds[..cut].iter().map(|s| s.to_string()).collect()));
            sequences.push(("post".to_string(), cmds[cut..].iter().map(|s| s.to_string()).collect()));
        } else {
            let k = rng.range(1, cmds.len());
            sequences.push(("ci".to_string(), cmds[..k].iter().map(|s| s.to_string()).collect()));
        }
    }
    if rng.chance(p.shuffle_decl_pct, 100) {
        rng.shuffle(&mut targets);
    }
    WorldSpec {
        targets,
        cmd_files,
        files,
        sequences,
        max_retained_runs: 3,
        gitignore: vec![],
        git: true,
        lock_host: None,
        default_ports: 0,
        omit_max_retained: false,
        sha256_repo: false,
        clock_plan: vec![],
        script_wrappers: 0,
    }
}

/// the commands of the generated world, in a stable order
pub fn world_commands(spec: &WorldSpec) -> Vec<String> {
    let mut v: Vec<String> = vec![];
    for cf in &spec.cmd_files {
        if !v.contains(&cf.command) && !cf.command.ends_with("__decoy") {
            v.push(cf.command.clone());
        }
    }
    if v.is_empty() {
        v.push("build".into());
    }
    v
}

#[derive(Serialize, Deserialize, Clone, Debug, PartialEq)]
pub enum Mode {
    /// no checkpoint: every configured target
    All,
    /// checkpoint at HEAD, then these files are rewritten (relative paths)
    Changed { edits: Vec<String> },
    /// explicit -t (deps flag is in the script's options)
    Named,
}

#[derive(Serialize, Deserialize, Clone, Debug, PartialEq)]
pub struct RunScenario {
    pub spec: WorldSpec,
    pub mode: Mode,
    pub script: RunScript,
    pub hang_ms: u64,
}

pub fn default_hang_ms() -> u64 {
    std::env::var("VERIF_HANG_MS").ok().and_then(|s| s.parse().ok()).unwrap_or(10_000)
}

/// Pick commands/sequences for a run.
pub fn gen_opts(rng: &mut Rng, spec: &WorldSpec) -> RunOpts {
    let cmds = world_commands(spec);
    let mut o = RunOpts::default();
    if !spec.sequences.is_empty() && rng.chance(60, 100) {
        // one or all of the configured sequences, in a seeded order
        let mut names: Vec<String> = spec.sequences.iter().map(|s| s.0.clone()).collect();
        rng.shuffle(&mut names);
        if names.len() > 1 && rng.chance(1, 3) {
            names.truncate(1);
        }
        o.sequences = names;
        // never the same command twice in one run: (command, target) would no longer name one process
        let used: Vec<&String> = spec.sequences.iter().filter(|s| o.sequences.contains(&s.0)).flat_map(|s| s.1.iter()).collect();
        let rest: Vec<&String> = cmds.iter().filter(|c| !used.contains(c)).collect();
        if !rest.is_empty() && rng.chance(60, 100) {
            o.commands.push(rest[rng.below(rest.len())].clone());
        }
    } else {
        let k = rng.range(1, cmds.len());
        let mut c = cmds.clone();
        rng.shuffle(&mut c);
        c.truncate(k);
        o.commands = c;
    }
    o
}

pub fn expanded_commands(spec: &WorldSpec, o: &RunOpts) -> Vec<String> {
    let mut v = vec![];
    for s in &o.sequences {
        if let Some((_, cs)) = spec.sequences.iter().find(|(n, _)| n == s) {
            v.extend(cs.iter().cloned());
        }
    }
    v.extend(o.commands.iter().cloned());
    v
}

pub fn gen_mode(rng: &mut Rng, spec: &WorldSpec, opts: &mut RunOpts, allow_named_nodeps: bool) -> Mode {
    match rng.below(3) {
        0 => Mode::All,
        1 => {
            let mut edits = vec![];
            for t in &spec.targets {
                if rng.chance(55, 100) {
                    // the file other targets may name in `uses`, or another file of the target that nobody names
                    // (then the target itself is affected while a target that uses only `<t>/file.txt` is not)
                    edits.push(if rng.chance(1, 2) { format!("{}/file.txt", t.path) } else { format!("{}/other.txt", t.path) });
                }
            }
            for (f, _) in &spec.files {
                if rng.chance(30, 100) {
                    edits.push(f.clone());
                }
            }
            Mode::Changed { edits }
        }
        _ => {
            let k = rng.range(1, spec.targets.len().min(3));
            let mut ts: Vec<String> = spec.targets.iter().map(|t| t.path.clone()).collect();
            rng.shuffle(&mut ts);
            ts.truncate(k);
            opts.targets = ts;
            opts.deps = !allow_named_nodeps || rng.chance(60, 100);
            Mode::Named
        }
    }
}

pub fn gen_outs(rng: &mut Rng, tag: &str, max_steps: usize) -> Vec<OutStep> {
    let mut v = gen_outs_plain(rng, tag, max_steps);
    crate::props_log::close_one_stream_early(rng, &mut v);
    v
}

fn gen_outs_plain(rng: &mut Rng, tag: &str, max_steps: usize) -> Vec<OutStep> {
    let k = rng.below(max_steps + 1);
    (0..k)
        .map(|i| {
            let fd = if rng.chance(60, 100) { 1 } else { 2 };
            let s = format!("{} fd{} line {}\n", tag, fd, i);
            OutStep { fd, hex: hex(s.as_bytes()), pause_ms: 0, close: false }
        })
        .collect()
}

pub fn gen_strategy(rng: &mut Rng) -> Strategy {
    match rng.below(10) {
        0 => Strategy::PlanOrder,
        1 => Strategy::Reverse,
        2 | 3 => Strategy::Prio,
        4 | 5 | 6 => Strategy::Uniform,
        7 | 8 => Strategy::HoldM,
        _ => Strategy::Straggler,
    }
}

/// dependencies-last priorities: a target that many others depend on is released late
pub fn deps_last_prio(spec: &WorldSpec) -> Vec<(String, i64)> {
    let deps = models::direct_deps(spec);
    spec.targets
        .iter()
        .map(|t| {
            let dependents = spec.targets.iter().filter(|x| models::trans_deps(&deps, &x.path).contains(&t.path)).count();
            (t.path.clone(), dependents as i64)
        })
        .collect()
}

// ---------------------------------------------------------------------------------------------

pub struct RunCtx {
    pub sc: RunScenario,
    /// `analyze --target-groups` taken immediately before the run
    pub analyze_before: Option<Value>,
    pub analyze_err: Option<Value>,
    pub trace: RunTrace,
    pub commands: Vec<String>,
    pub probes: BTreeMap<String, u64>,
}

pub enum Prepared {
    Ctx(Box<RunCtx>),
    Skip(String),
}

fn is_graph_error(v: &Option<Value>) -> bool {
    v.as_ref().map(|e| e["type"] == "graph").unwrap_or(false)
}

/// Build the world, put it in the scenario's selection mode, record analyze, drive the run.
pub fn execute_run(sc: &RunScenario, keep_world: Option<&mut Option<World>>) -> Prepared {
    execute_run_with(sc, keep_world, false, None)
}

/// `listener`: a healthy `log tail` process (all streams, no filters) is attached for the whole run
/// `prior`: an earlier invocation on the same repository, driven to its end before the judged run starts
pub fn execute_run_with(sc: &RunScenario, keep_world: Option<&mut Option<World>>, listener: bool, prior: Option<&RunScript>) -> Prepared {
    let mut w = match World::create(&sc.spec, true) {
        Ok(w) => w,
        Err(e) => return Prepared::Skip(format!("world: {}", e)),
    };
    if let Some(s) = sc.script.rand_seed {
        w.set_rand_seed(s);
    }
    // C03/C09 territory: a configuration both `target show -g` and the model must agree is usable
    let probe = w.cli(&["target", "show", "-g"]);
    if probe.code != Some(0) {
        let e = probe.err_json();
        let acyclic = models::is_acyclic(&models::direct_deps(&sc.spec));
        if is_graph_error(&e) && acyclic {
            return Prepared::Skip("sut_rejects_acyclic_graph(C03,C10 territory)".into());
        }
        return Prepared::Skip(format!("config_rejected: {}", probe.err_str().chars().take(160).collect::<String>()));
    }
    match &sc.mode {
        Mode::Changed { edits } => {
            let o = w.cli(&["checkpoint", "update"]);
            if o.code != Some(0) {
                return Prepared::Skip(format!("checkpoint update failed: {}", o.err_str()));
            }
            for (i, f) in edits.iter().enumerate() {
                if w.write_file(f, &format!("edit {}\n", i)).is_err() {
                    return Prepared::Skip("edit failed".into());
                }
            }
        }
        Mode::All | Mode::Named => {}
    }
    let mut a_args = vec!["analyze".to_string(), "--target-groups".to_string()];
    if let Some(b) = &sc.script.opts.begin {
        a_args.push("--begin".into());
        a_args.push(b.clone());
    }
    let a = w.cli_v(&a_args);
    let (analyze_before, analyze_err) = if a.code == Some(0) { (a.json(), None) } else { (None, a.err_json().or(Some(Value::String(a.err_str())))) };
    if let Some(ps) = prior {
        let ptr = crate::rundrv::drive_run(&mut w, "M0", ps, Duration::from_millis(sc.hang_ms));
        if ptr.hang.is_some() || ptr.result_json().is_none() {
            return Prepared::Skip("prior_run_did_not_complete(other property)".into());
        }
    }
    for ea in &sc.script.env_actions {
        if let crate::rundrv::EnvAct::MakeHelper { rel } = &ea.act {
            use std::os::unix::fs::PermissionsExt;
            let p = w.root.join(rel);
            let _ = std::fs::remove_file(&p);
            if std::fs::write(&p, b"#!/bin/false\n").and_then(|_| std::fs::set_permissions(&p, std::fs::Permissions::from_mode(0o644))).is_err() {
                return Prepared::Skip("cannot downgrade command file".into());
            }
        }
    }
    let l = if listener {
        let cfg = crate::props_listen::ListenerCfg { stdout: true, stderr: true, targets: vec![], commands: vec![] };
        match crate::props_listen::start_listener(&mut w, &cfg) {
            Ok(l) => Some(l),
            Err(e) => return Prepared::Skip(format!("listener: {}", e)),
        }
    } else {
        None
    };
    let trace = crate::rundrv::drive_run_l(&mut w, "M1", &sc.script, Duration::from_millis(sc.hang_ms), l);
    if let Some(l) = l {
        if trace.listener_exit.is_none() {
            let _ = crate::props_listen::finish_listener(&mut w, l);
        }
    }
    let probes: BTreeMap<String, u64> = w.ctl.as_mut().map(|c| c.take_probes().into_iter().collect()).unwrap_or_default();
    let commands = expanded_commands(&sc.spec, &sc.script.opts);
    let ctx = RunCtx {
        sc: sc.clone(),
        analyze_before,
        analyze_err,
        trace,
        commands,
        probes,
    };
    if let Some(slot) = keep_world {
        *slot = Some(w);
    }
    Prepared::Ctx(Box::new(ctx))
}

// ---------------------------------------------------------------------------------------------
// views of the result document

#[derive(Clone, Debug, PartialEq)]
pub struct PairResult {
    pub status: String,
    pub code: Option<i64>,
}
/// results[i] -> (command, groups[j] -> target -> result)
pub fn result_groups(doc: &Value) -> Vec<(String, Vec<BTreeMap<String, PairResult>>)> {
    let mut out = vec![];
    if let Some(rs) = doc["results"].as_array() {
        for r in rs {
            let c = r["command"].as_str().unwrap_or("").to_string();
            let mut gs = vec![];
            if let Some(tg) = r["target_groups"].as_array() {
                for g in tg {
                    let mut m = BTreeMap::new();
                    if let Some(o) = g.as_object() {
                        for (t, v) in o {
                            m.insert(
                                t.clone(),
                                PairResult {
                                    status: v["status"].as_str().unwrap_or("").to_string(),
                                    code: v["code"].as_i64(),
                                },
                            );
                        }
                    }
                    gs.push(m);
                }
            }
            out.push((c, gs));
        }
    }
    out
}

pub fn analyze_groups(a: &Value) -> Option<Vec<BTreeSet<String>>> {
    a["target_groups"].as_array().map(|gs| {
        gs.iter()
            .map(|g| g.as_array().map(|x| x.iter().filter_map(|s| s.as_str().map(|s| s.to_string())).collect()).unwrap_or_default())
            .collect()
    })
}

#[derive(Clone, Copy, PartialEq, Debug)]
pub enum Def {
    Undefined,
    NotExec,
    Defined,
}
/// How (command, target) resolves in the generated world (default command directory / definitions).
pub fn definition(spec: &WorldSpec, command: &str, target: &str) -> Def {
    match spec.cmd_files.iter().find(|c| c.command == command && c.target == target) {
        None => Def::Undefined,
        Some(c) if !c.exec => Def::NotExec,
        Some(_) => Def::Defined,
    }
}

pub fn base_trace(ctx: &RunCtx, out: &mut Outcome) {
    out.trace = ctx.trace.log.clone();
    out.steps = ctx.trace.steps as u64;
    for (k, v) in &ctx.probes {
        out.probe(k, *v);
    }
    if ctx.trace.held_moves > 0 {
        out.fault("internal_point_held_while_other_actor_moved", ctx.trace.held_moves as u64);
    }
    if ctx.trace.real_pause_ms > 0 {
        out.fault("child_held_alive_for_real_seconds", 1);
        out.sim_ms += ctx.trace.real_pause_ms;
    }
    if ctx.trace.until_used {
        out.fault("compressor_threads_gone_before_later_shutdown_send", 1);
    }
    out.trace.push(format!("exit code={:?} stdout={}", ctx.trace.code(), canonical_result(&ctx.trace)));
}

/// result document with volatile fields removed, keys sorted (serde_json maps are BTreeMaps)
pub fn canonical_result(tr: &RunTrace) -> String {
    match tr.result_json() {
        Some(mut v) => {
            strip_volatile(&mut v);
            // Where the SUT is entitled to choose, the trace stores the equivalence class: in a group
            // with a failing member, whether a started sibling is reported success, error with its
            // code or code-less error depends on tokio's unseeded select! and on thread timing.
            if let Some(rs) = v["results"].as_array_mut() {
                for r in rs {
                    if let Some(gs) = r["target_groups"].as_array_mut() {
                        for g in gs {
                            if let Some(m) = g.as_object_mut() {
                                let failing = m.values().any(|e| e["status"] == "error");
                                if failing {
                                    for (_, e) in m.iter_mut() {
                                        if e["status"] == "success" || e["status"] == "error" {
                                            *e = serde_json::json!({"status": "ran (member of a failing group)"});
                                        }
                                    }
                                }
                            }
                        }
                    }
                }
            }
            v.to_string()
        }
        None => String::from("<none>"),
    }
}
pub fn strip_volatile(v: &mut Value) {
    match v {
        Value::Object(m) => {
            m.remove("timestamp");
            m.remove("runtime_secs");
            m.remove("out");
            m.remove("invocation");
            for (_, x) in m.iter_mut() {
                strip_volatile(x);
            }
        }
        Value::Array(a) => {
            for x in a {
                strip_volatile(x);
            }
        }
        _ => {}
    }
}

pub fn behav_exit0_all(spec: &WorldSpec, rng: &mut Rng, max_outs: usize) -> Vec<Behav> {
    spec.cmd_files
        .iter()
        .filter(|c| c.exec && !c.command.ends_with("__decoy"))
        .map(|c| Behav {
            command: c.command.clone(),
            target: c.target.clone(),
            outs: gen_outs(rng, &format!("{}:{}", c.command, c.target), max_outs),
            code: 0,
            exit_pause_ms: 0,
            early_exit: false,
            hold_pipes_ms: 0,
            outs_again: vec![],
        })
        .collect()
}
