//! C14: mutating invocations on one repository are mutually exclusive.
use crate::ctl::{Ctl, Ev};
use crate::harness::{scenario_seed, Outcome, Property, Tier};
use crate::prng::Rng;
use crate::props_store::flat_world;
use crate::rundrv::{drive_run, RunOpts, RunScript};
use crate::runworld::default_hang_ms;
use crate::world::{World, WorldSpec};
use serde::{Deserialize, Serialize};
use serde_json::{json, Value};
use std::collections::BTreeMap;
use std::time::Duration;

#[derive(Serialize, Deserialize, Clone, Copy, Debug, PartialEq)]
pub enum Kind {
    Run,
    CpUpdate,
    CpDelete,
    OutDelete,
    /// `out delete` without --all: removes nothing, only measures - and is still one of the mutating APIs that take the lock
    OutMeasure,
}
#[derive(Serialize, Deserialize, Clone, Copy, Debug, PartialEq)]
pub enum End {
    /// released, exits normally
    Go,
    /// released; (run only) its first child exits 3
    GoFailChild,
    /// SIGKILL while parked past the lock
    Kill,
}

#[derive(Serialize, Deserialize, Clone, Debug)]
pub struct C14Scenario {
    pub spec: WorldSpec,
    pub first: Kind,
    /// a `run` holder is released past the lock point and held at its first child instead
    pub hold_at_child: bool,
    pub first_end: End,
    pub phase_b: Vec<Kind>,
    /// one more contender started while the holder is past the lock; the holder is ended the moment
    /// the contender's failed bind() on the lock port has been observed (shim bind log)
    #[serde(default)]
    pub late: Option<Kind>,
    pub phase_d: Vec<Kind>,
    pub last: Kind,
    pub rand_seed: u64,
    /// the held child of a `run` holder itself invokes this API on the same repository (a command
    /// calling back into monorail): it must be refused like any other contender
    #[serde(default)]
    pub nested: Option<Kind>,
    /// the contenders of phase D get a slow listen(): the window between their bind() and listen() is
    /// widened the way a loaded machine would
    #[serde(default)]
    pub listen_delay_us: Option<u32>,
    /// while the holder is past the lock, something else connects to the lock port and goes away again
    /// (a port scanner, a health check, a mistyped URL)
    #[serde(default)]
    pub stray_connection: bool,
    /// instead of the phases: a `run` holder of this many targets whose standard output nobody reads (its
    /// result document does not fit the pipe), and these contenders started while it is stuck printing
    #[serde(default)]
    pub blocked_stdout: Option<(usize, Vec<Kind>)>,
    /// the holder has been past the lock for this long (real milliseconds, longer than the configured
    /// bind_timeout_ms of 1000) before the first contender starts
    #[serde(default)]
    pub hold_ms: Option<u32>,
}

pub struct C14;

fn kind_args(k: Kind, spec: &WorldSpec) -> Vec<String> {
    match k {
        Kind::Run => {
            let mut a = vec!["run".to_string(), "-c".into(), "build".into(), "-t".into()];
            a.extend(spec.targets.iter().map(|t| t.path.clone()));
            a
        }
        Kind::CpUpdate => vec!["checkpoint".into(), "update".into(), "--id".into(), "from-contender".into()],
        Kind::CpDelete => vec!["checkpoint".into(), "delete".into()],
        Kind::OutDelete => vec!["out".into(), "delete".into(), "--all".into()],
        Kind::OutMeasure => vec!["out".into(), "delete".into()],
    }
}

fn gen_c14(seed: u64, idx: usize, _tier: Tier) -> C14Scenario {
    let mut rng = Rng::new(scenario_seed(seed, "C14", idx));
    let mut spec = flat_world(&mut rng, 2, 1, 3, 0, true);
    crate::props_run::clockify(&mut spec, seed, "C14-clock", idx, 4);
    if rng.chance(1, 4) {
        spec.lock_host = Some("localhost".into());
    }
    let shape = rng.below(6);
    if shape < 2 {
        // the configuration leaves the ports to their documented defaults (`server.lock` without `port`, or no
        // `server` section at all)
        spec.default_ports = shape as u8 + 1;
    }
    let kinds = [Kind::Run, Kind::CpUpdate, Kind::CpDelete, Kind::OutDelete];
    let first = *rng.pick(&kinds);
    let hold_at_child = first == Kind::Run && rng.chance(1, 2);
    let first_end = match rng.below(4) {
        0 | 1 => End::Kill,
        2 if first == Kind::Run => End::GoFailChild,
        _ => End::Go,
    };
    let nb = rng.range(1, 4);
    let nd = rng.range(2, 4);
    let mut sc = C14Scenario {
        spec,
        first,
        hold_at_child,
        first_end,
        phase_b: (0..nb).map(|_| *rng.pick(&kinds)).collect(),
        late: if rng.chance(1, 2) { Some(*rng.pick(&kinds)) } else { None },
        phase_d: (0..nd).map(|_| *rng.pick(&kinds)).collect(),
        last: *rng.pick(&kinds),
        rand_seed: rng.next_u64() % 1_000_000,
        nested: if hold_at_child && rng.chance(1, 2) { Some(*rng.pick(&kinds)) } else { None },
        listen_delay_us: if rng.chance(1, 3) { Some(*rng.pick(&[2_000u32, 20_000, 100_000])) } else { None },
        stray_connection: rng.chance(1, 3),
        hold_ms: if rng.chance(1, 8) { Some(*rng.pick(&[1150u32, 1400, 2300])) } else { None },
        blocked_stdout: if rng.chance(1, 8) { Some((rng.range(30, 60), (0..rng.range(1, 3)).map(|_| *rng.pick(&kinds)).collect())) } else { None },
    };
    // every third `out delete` comes without --all: it deletes nothing and still has to take its turn (own
    // generator, so that existing seeds keep their scenarios otherwise)
    let mut mrng = Rng::new(scenario_seed(seed, "C14-measure", idx));
    let mut soften = |k: &mut Kind| {
        if *k == Kind::OutDelete && mrng.chance(1, 3) {
            *k = Kind::OutMeasure;
        }
    };
    soften(&mut sc.first);
    sc.phase_b.iter_mut().for_each(&mut soften);
    if let Some(k) = sc.late.as_mut() {
        soften(k);
    }
    sc.phase_d.iter_mut().for_each(&mut soften);
    soften(&mut sc.last);
    if let Some(k) = sc.nested.as_mut() {
        soften(k);
    }
    if let Some((_, ks)) = sc.blocked_stdout.as_mut() {
        ks.iter_mut().for_each(&mut soften);
    }
    sc
}

fn snap(w: &World, without_run_dir: bool) -> BTreeMap<String, String> {
    let mut m = w.snapshot_dir(&w.out_dir());
    if without_run_dir {
        m.retain(|k, _| !k.starts_with("run/"));
    }
    m
}

enum Reached {
    Parked(usize), // conn of the parked point
    Exited(crate::ctl::ProcExit),
    Timeout,
}

fn wait_lock_or_exit(ctl: &mut Ctl, actor: &str, proc_id: usize, hang: Duration) -> Reached {
    match ctl.wait_for(
        |e| match e {
            Ev::Point(p) => p.actor == actor && p.name == "cli.lock.acquired",
            Ev::Exit(x) => x.proc_id == proc_id,
            _ => false,
        },
        hang,
    ) {
        Some(Ev::Point(p)) => Reached::Parked(p.conn),
        Some(Ev::Exit(x)) => Reached::Exited(x),
        _ => Reached::Timeout,
    }
}

/// answer every child of `actor` with EXIT until the process is gone
fn service_until_exit(ctl: &mut Ctl, actor: &str, proc_id: usize, first_code: i32, hang: Duration) -> Option<crate::ctl::ProcExit> {
    let mut code = first_code;
    loop {
        match ctl.wait_for(
            |e| match e {
                Ev::Hello(h) => h.actor == actor,
                Ev::Exit(x) => x.proc_id == proc_id,
                _ => false,
            },
            hang,
        ) {
            Some(Ev::Hello(h)) => {
                ctl.send(h.conn, &format!("EXIT {}\n", code));
                code = 0;
            }
            Some(Ev::Exit(x)) => return Some(x),
            _ => return None,
        }
    }
}

fn is_lock_error(x: &crate::ctl::ProcExit) -> bool {
    let s = String::from_utf8_lossy(&x.stderr);
    x.code.map(|c| c != 0).unwrap_or(false) && s.lines().any(|l| serde_json::from_str::<Value>(l).map(|v| v["type"] == "server" && v["message"].as_str().map(|m| m.contains("Lock")).unwrap_or(false)).unwrap_or(false))
}

/// A `run` that has finished its work but cannot get rid of its result document (nobody reads its stdout) is
/// still an invocation past lock acquisition: whoever tries meanwhile must be refused.
fn exec_c14_blocked(sc: &C14Scenario, n: usize, contenders: &[Kind]) -> Outcome {
    let mut rng = Rng::new(sc.rand_seed);
    let spec = flat_world(&mut rng, n, 1, 3, 0, true);
    let mut w = match World::create(&spec, true) {
        Ok(w) => w,
        Err(e) => return Outcome::skip(&format!("world: {}", e)),
    };
    w.set_rand_seed(sc.rand_seed);
    let hang = Duration::from_millis(default_hang_ms());
    let mut out = Outcome::default();
    if w.cli(&["checkpoint", "update", "--id", "prefix"]).code != Some(0) {
        return Outcome::skip("prefix checkpoint failed");
    }
    let points = "cli.lock.acquired";
    let (p0, gate) = match w.start_m_gated("H", &kind_args(Kind::Run, &spec), points, &[]) {
        Ok(x) => x,
        Err(e) => return Outcome::skip(&format!("start: {}", e)),
    };
    match wait_lock_or_exit(w.ctl.as_mut().unwrap(), "H", p0, hang) {
        Reached::Parked(c) => {
            w.ctl.as_mut().unwrap().send(c, "GO\n");
        }
        Reached::Exited(x) => {
            if is_lock_error(&x) {
                return Outcome::skip("lock port taken by a stranger");
            }
            out.violate("acquire_after_release", "first_never_acquired", format!("the only invocation exited {:?} without reaching lock acquisition", x.code));
            return out;
        }
        Reached::Timeout => {
            out.violate("acquire_after_release", "first_hung", "run neither acquired the lock nor exited".into());
            return out;
        }
    }
    // every child exits 0 at once; then the holder has nothing left to do but print
    let mut served = 0;
    loop {
        let ctl = w.ctl.as_mut().unwrap();
        match ctl.wait_for(|e| matches!(e, Ev::Hello(h) if h.actor == "H") || matches!(e, Ev::Exit(x) if x.proc_id == p0), if served >= n { Duration::from_millis(400) } else { hang }) {
            Some(Ev::Hello(h)) => {
                served += 1;
                ctl.send(h.conn, "EXIT 0\n");
            }
            Some(Ev::Exit(_)) => {
                gate.store(true, std::sync::atomic::Ordering::SeqCst);
                return Outcome::skip("holder finished although nobody read its output (document fits the pipe)");
            }
            _ => break,
        }
    }
    if served < n {
        gate.store(true, std::sync::atomic::Ordering::SeqCst);
        return Outcome::skip("holder run did not start all its children(other property)");
    }
    out.fault("holder_stuck_printing_its_result_to_a_reader_that_does_not_read", 1);
    out.trace.push(format!("holder run of {} targets served; it is alive and its stdout is not being read", n));
    let s1 = snap(&w, true);
    for (i, k) in contenders.iter().enumerate() {
        let a = format!("K{}", i + 1);
        let p = match w.start_m(&a, &kind_args(*k, &spec), points, &[]) {
            Ok(p) => p,
            Err(e) => return Outcome::skip(&format!("start: {}", e)),
        };
        let holder_alive = !w.ctl.as_ref().unwrap().procs[p0].exited;
        match wait_lock_or_exit(w.ctl.as_mut().unwrap(), &a, p, hang) {
            Reached::Parked(_) => {
                if holder_alive && !w.ctl.as_ref().unwrap().procs[p0].exited {
                    out.violate("overlap", "two_past_the_lock", format!("{:?} got past lock acquisition while the `run` started first was still alive past it (stuck printing its result)", k));
                }
                break;
            }
            Reached::Exited(x) => {
                out.sub_evals += 1;
                if !is_lock_error(&x) {
                    out.violate("loser_exit", "no_lock_error", format!("{:?} ran while a `run` held the lock and exited {:?} with {:?} instead of a lock error", k, x.code, String::from_utf8_lossy(&x.stderr).trim()));
                    break;
                }
            }
            Reached::Timeout => {
                out.violate("loser_exit", "hung", format!("{:?} neither failed nor acquired while a `run` held the lock", k));
                break;
            }
        }
    }
    if out.violations.is_empty() {
        // the holder's own records may appear (it completed); nothing else may change
        let s2 = snap(&w, true);
        let diff: Vec<&String> = s1.keys().chain(s2.keys()).filter(|k| s1.get(*k) != s2.get(*k) && !k.starts_with("tracking/run")).collect();
        if !diff.is_empty() {
            out.violate("loser_side_effect", "out_dir_changed", format!("contenders {:?} lost the lock but the output directory changed: {:?}", contenders, diff));
        }
    }
    gate.store(true, std::sync::atomic::Ordering::SeqCst);
    let ctl = w.ctl.as_mut().unwrap();
    match ctl.wait_exit(p0, hang) {
        Some(x) if x.code == Some(0) => {}
        other => {
            if out.violations.is_empty() {
                out.advisories.push(format!("holder ended with {:?} once its output was read", other.map(|x| x.code)));
            }
        }
    }
    out.nontrivial = true;
    out.signature = format!("blocked|{}|{:?}", n, contenders);
    out.steps = contenders.len() as u64 + 1;
    out
}

fn exec_c14(sc: &C14Scenario) -> Outcome {
    if let Some((n, ks)) = &sc.blocked_stdout {
        return exec_c14_blocked(sc, *n, ks);
    }
    let mut spec = sc.spec.clone();
    if spec.lock_host.as_deref() == Some("localhost") {
        // only where the name denotes exactly one address: with several, binding "the first address that
        // works" is how the name itself is specified to behave, and two holders could be legitimate
        use std::net::ToSocketAddrs;
        let addrs: std::collections::BTreeSet<std::net::IpAddr> = ("localhost", 1u16).to_socket_addrs().map(|a| a.map(|x| x.ip()).collect()).unwrap_or_default();
        if addrs.len() != 1 || !addrs.iter().all(|a| a.is_loopback() && a.is_ipv4()) {
            spec.lock_host = None;
        }
    }
    let mut w = match World::create(&spec, true) {
        Ok(w) => w,
        Err(e) => return Outcome::skip(&format!("world: {}", e)),
    };
    w.set_rand_seed(sc.rand_seed);
    let hang = Duration::from_millis(default_hang_ms());
    let mut out = Outcome::default();
    if spec.default_ports != 0 {
        out.fault("configuration_relies_on_the_default_ports", 1);
    }
    // state that a trespasser would damage: a checkpoint and a completed run
    if w.cli(&["checkpoint", "update", "--id", "prefix"]).code != Some(0) {
        return Outcome::skip("prefix checkpoint failed");
    }
    let pre = drive_run(&mut w, "P", &RunScript { rand_seed: Some(sc.rand_seed), ..RunScript::simple(RunOpts { commands: vec!["build".into()], targets: vec![sc.spec.targets[0].path.clone()], ..Default::default() }) }, hang);
    if pre.code() != Some(0) {
        return Outcome::skip("prefix run failed(other property)");
    }
    let points = "cli.lock.acquired";
    let mut n_actor = 0;
    let mut next_actor = || {
        n_actor += 1;
        format!("K{}", n_actor)
    };
    // ---- phase A: the first contender alone
    let a0 = next_actor();
    let p0 = match w.start_m(&a0, &kind_args(sc.first, &sc.spec), points, &[]) {
        Ok(p) => p,
        Err(e) => return Outcome::skip(&format!("start: {}", e)),
    };
    let conn0 = match wait_lock_or_exit(w.ctl.as_mut().unwrap(), &a0, p0, hang) {
        Reached::Parked(c) => c,
        Reached::Exited(x) => {
            if is_lock_error(&x) {
                return Outcome::skip("lock port taken by a stranger");
            }
            out.violate("acquire_after_release", "first_never_acquired", format!("the only invocation {:?} exited {:?} without reaching lock acquisition: {}", sc.first, x.code, String::from_utf8_lossy(&x.stderr).trim()));
            return out;
        }
        Reached::Timeout => {
            out.violate("acquire_after_release", "first_hung", format!("{:?} neither acquired the lock nor exited", sc.first));
            return out;
        }
    };
    out.trace.push(format!("A: {:?} acquired", sc.first));
    let mut held_child: Option<usize> = None;
    if sc.hold_at_child {
        let ctl = w.ctl.as_mut().unwrap();
        ctl.send(conn0, "GO\n");
        match ctl.wait_for(|e| matches!(e, Ev::Hello(h) if h.actor == a0) || matches!(e, Ev::Exit(x) if x.proc_id == p0), hang) {
            Some(Ev::Hello(h)) => held_child = Some(h.conn),
            _ => return Outcome::skip("holder run started no child(other property)"),
        }
        out.trace.push("A: holder released past the lock, held at its first child".into());
    }
    if let (Some(k), Some(conn)) = (sc.nested, held_child) {
        let mut argv: Vec<Vec<u8>> = vec![crate::world::bin_dir().join("monorail").to_string_lossy().as_bytes().to_vec(), b"-f".to_vec(), w.root.join("Monorail.json").to_string_lossy().as_bytes().to_vec()];
        argv.extend(kind_args(k, &sc.spec).into_iter().map(|a| a.into_bytes()));
        let line = format!("RUN {}\n", argv.iter().map(|a| crate::proto::hex(a)).collect::<Vec<_>>().join(" "));
        let ctl = w.ctl.as_mut().unwrap();
        ctl.send(conn, &line);
        out.fault("nested_invocation_from_a_running_command", 1);
        match ctl.wait_for(|e| matches!(e, Ev::Line { conn: c, .. } if *c == conn) || matches!(e, Ev::Point(p) if p.actor == a0 && p.name == "cli.lock.acquired") || matches!(e, Ev::Hello(h) if h.actor == a0), hang) {
            Some(Ev::Line { line, .. }) => {
                let f: Vec<&str> = line.split(' ').collect();
                let code: i32 = f.get(1).and_then(|x| x.parse().ok()).unwrap_or(-1);
                let err = crate::proto::unhex_str(f.get(2).unwrap_or(&"-"));
                if f.first() != Some(&"DONE") || code == 0 || !err.contains("Lock") {
                    out.violate("loser_exit", "nested_invocation_not_refused", format!("a command of the running `run` invoked {:?} on the same repository; it ended with {:?} (exit {}) instead of a lock error: {}", k, f.first(), code, err.trim()));
                    return out;
                }
            }
            Some(Ev::Point(_)) | Some(Ev::Hello(_)) => {
                out.violate("overlap", "nested_invocation_past_the_lock", format!("a command of the running `run` invoked {:?} on the same repository and it got past lock acquisition while its parent holds the lock", k));
                return out;
            }
            _ => {
                out.violate("loser_exit", "hung", format!("nested {:?} neither failed nor acquired", k));
                return out;
            }
        }
        out.trace.push(format!("A': nested {:?} started by the holder's own child was refused with a lock error", k));
    }
    if sc.stray_connection {
        use std::io::Write;
        if let Ok(mut c) = std::net::TcpStream::connect(("127.0.0.1", w.ports.lock)) {
            let _ = c.write_all(b"GET / HTTP/1.0\r\n\r\n");
            let _ = c.shutdown(std::net::Shutdown::Both);
        }
        out.fault("stray_connection_to_the_lock_port", 1);
        // give a holder that (wrongly) serves its lock port a moment to react
        std::thread::sleep(Duration::from_millis(30));
    }
    if let Some(ms) = sc.hold_ms {
        std::thread::sleep(Duration::from_millis(ms as u64));
        out.fault("holder_past_the_lock_for_longer_than_the_bind_timeout", 1);
        out.sim_ms += ms as u64;
    }
    let s1 = snap(&w, sc.hold_at_child);
    // ---- phase B: contenders started while the holder is past the lock
    let mut bs = vec![];
    for k in &sc.phase_b {
        let a = next_actor();
        match w.start_m(&a, &kind_args(*k, &sc.spec), points, &[]) {
            Ok(p) => bs.push((a, p, *k)),
            Err(e) => return Outcome::skip(&format!("start: {}", e)),
        }
    }
    for (a, p, k) in &bs {
        match wait_lock_or_exit(w.ctl.as_mut().unwrap(), a, *p, hang) {
            Reached::Parked(_) => {
                out.violate("overlap", "two_past_the_lock", format!("{:?} got past lock acquisition while {:?} (started first) was still past it", k, sc.first));
                return out;
            }
            Reached::Exited(x) => {
                out.sub_evals += 1;
                if !is_lock_error(&x) {
                    out.violate("loser_exit", "no_lock_error", format!("{:?} ran while {:?} held the lock and exited {:?} with {:?} instead of a lock error", k, sc.first, x.code, String::from_utf8_lossy(&x.stderr).trim()));
                    return out;
                }
            }
            Reached::Timeout => {
                out.violate("loser_exit", "hung", format!("{:?} neither failed nor acquired while {:?} held the lock", k, sc.first));
                return out;
            }
        }
        let ctl = w.ctl.as_mut().unwrap();
        if ctl.peek(|e| matches!(e, Ev::Hello(h) if h.actor == *a)) {
            out.violate("loser_side_effect", "started_executable", format!("{:?} lost the lock but started an executable", k));
            return out;
        }
    }
    let s2 = snap(&w, sc.hold_at_child);
    if s1 != s2 {
        let diff: Vec<&String> = s1.keys().chain(s2.keys()).filter(|k| s1.get(*k) != s2.get(*k)).collect();
        out.violate("loser_side_effect", "out_dir_changed", format!("contenders {:?} lost the lock but the output directory changed: {:?}", sc.phase_b, diff));
        return out;
    }
    out.trace.push(format!("B: {} contenders, all lock errors, output directory unchanged", bs.len()));
    // ---- phase B': a contender whose lost attempt is observed, then the holder ends at once
    let mut late: Option<(String, usize, Kind)> = None;
    if let Some(k) = sc.late {
        let a = next_actor();
        let bl = w.root.join(".bind.log");
        let _ = std::fs::remove_file(&bl);
        let env = vec![
            ("LD_PRELOAD".to_string(), crate::world::shim_path().to_string_lossy().into_owned()),
            ("FSFAULT_BINDLOG".to_string(), bl.to_string_lossy().into_owned()),
        ];
        let p = match w.start_m(&a, &kind_args(k, &sc.spec), points, &env) {
            Ok(p) => p,
            Err(e) => return Outcome::skip(&format!("start: {}", e)),
        };
        let want = format!(" {} -1 ", w.ports.lock);
        let t0 = std::time::Instant::now();
        loop {
            let txt = std::fs::read_to_string(&bl).unwrap_or_default();
            if txt.lines().any(|l| l.contains(&want)) {
                break;
            }
            if txt.lines().any(|l| l.contains(&format!(" {} 0 ", w.ports.lock))) {
                out.violate("overlap", "bind_succeeded_while_held", format!("{:?} bound the lock port while {:?} was past the lock", k, sc.first));
                return out;
            }
            if t0.elapsed() > hang {
                // never tried to take the lock at all?
                break;
            }
            std::thread::sleep(Duration::from_micros(300));
        }
        out.fault("holder_ended_right_after_contender_lost_its_attempt", 1);
        late = Some((a, p, k));
    }
    // ---- phase C: the holder ends
    {
        let ctl = w.ctl.as_mut().unwrap();
        match sc.first_end {
            End::Kill => {
                ctl.kill(p0);
                let _ = ctl.wait_exit(p0, hang);
                out.fault("holder_sigkill", 1);
            }
            End::Go | End::GoFailChild => {
                let code = if sc.first_end == End::GoFailChild { 3 } else { 0 };
                match held_child {
                    Some(c) => {
                        ctl.send(c, &format!("EXIT {}\n", code));
                        if service_until_exit(ctl, &a0, p0, 0, hang).is_none() {
                            return Outcome::skip("holder did not exit(other property)");
                        }
                    }
                    None => {
                        ctl.send(conn0, "GO\n");
                        if service_until_exit(ctl, &a0, p0, code, hang).is_none() {
                            return Outcome::skip("holder did not exit(other property)");
                        }
                    }
                }
                if code != 0 {
                    out.fault("holder_failed_child", 1);
                } else {
                    out.fault("holder_normal_exit", 1);
                }
            }
        }
        // reap anything the holder left behind (events of other actors stay buffered)
        ctl.kill(p0);
    }
    out.trace.push(format!("C: holder ended by {:?}", sc.first_end));
    if let Some((a, p, k)) = late {
        // it tried while the lock was held: it must fail with a lock error, not wait its turn
        match wait_lock_or_exit(w.ctl.as_mut().unwrap(), &a, p, hang) {
            Reached::Exited(x) => {
                out.sub_evals += 1;
                if !is_lock_error(&x) {
                    out.violate("loser_exit", "no_lock_error_after_holder_left", format!("{:?} attempted the lock while {:?} held it (bind failed), yet ended with exit {:?} {:?} instead of a lock error", k, sc.first, x.code, String::from_utf8_lossy(&x.stderr).trim()));
                    return out;
                }
            }
            Reached::Parked(_) => {
                out.violate("loser_exit", "waited_for_the_lock", format!("{:?} attempted the lock while {:?} held it (its bind failed) but then acquired it after the holder ended instead of exiting with a lock error", k, sc.first));
                return out;
            }
            Reached::Timeout => {
                out.violate("loser_exit", "hung", format!("{:?} neither failed nor acquired", k));
                return out;
            }
        }
        let ctl = w.ctl.as_mut().unwrap();
        if ctl.peek(|e| matches!(e, Ev::Hello(h) if h.actor == a)) {
            out.violate("loser_side_effect", "started_executable", format!("{:?} lost the lock but started an executable", k));
            return out;
        }
        out.trace.push("B': late contender failed with a lock error although the holder left right after its attempt".into());
    }
    // ---- phase D: several contenders started the instant after the holder was reaped
    let s3 = snap(&w, false);
    let mut ds = vec![];
    let denv: Vec<(String, String)> = match sc.listen_delay_us {
        Some(us) => {
            out.fault("slow_listen_widening_the_bind_listen_window", 1);
            vec![("LD_PRELOAD".to_string(), crate::world::shim_path().to_string_lossy().into_owned()), ("FSFAULT_LISTEN_DELAY_US".to_string(), us.to_string())]
        }
        None => vec![],
    };
    for k in &sc.phase_d {
        let a = next_actor();
        match w.start_m(&a, &kind_args(*k, &sc.spec), points, &denv) {
            Ok(p) => ds.push((a, p, *k)),
            Err(e) => return Outcome::skip(&format!("start: {}", e)),
        }
    }
    let mut winners = vec![];
    let mut losers = 0;
    for (a, p, k) in &ds {
        match wait_lock_or_exit(w.ctl.as_mut().unwrap(), a, *p, hang) {
            Reached::Parked(c) => winners.push((a.clone(), *p, *k, c)),
            Reached::Exited(x) => {
                out.sub_evals += 1;
                if !is_lock_error(&x) {
                    out.violate("loser_exit", "no_lock_error", format!("{:?} (one of {:?} started together) exited {:?} with {:?}, neither holding the lock nor reporting a lock error", k, sc.phase_d, x.code, String::from_utf8_lossy(&x.stderr).trim()));
                    return out;
                }
                losers += 1;
            }
            Reached::Timeout => {
                out.violate("loser_exit", "hung", format!("{:?} neither failed nor acquired", k));
                return out;
            }
        }
    }
    if winners.len() > 1 {
        out.violate("overlap", "two_past_the_lock", format!("{} of the invocations {:?} started together are past lock acquisition at the same time", winners.len(), sc.phase_d));
        return out;
    }
    if winners.is_empty() {
        out.violate("acquire_after_release", "nobody_acquired", format!("the holder ended ({:?}) but none of {:?} acquired the lock", sc.first_end, sc.phase_d));
        return out;
    }
    let s4 = snap(&w, false);
    if s3 != s4 {
        out.violate("loser_side_effect", "out_dir_changed", format!("while the winner of {:?} was parked right after acquisition the output directory changed", sc.phase_d));
        return out;
    }
    out.trace.push(format!("D: {} started together: 1 acquired, {} lock errors", ds.len(), losers));
    {
        let (a, p, _, c) = winners[0].clone();
        let ctl = w.ctl.as_mut().unwrap();
        ctl.send(c, "GO\n");
        if service_until_exit(ctl, &a, p, 0, hang).is_none() {
            return Outcome::skip("winner did not exit(other property)");
        }
        ctl.kill(p);
        let _ = ctl.drain_buffer();
    }
    // ---- phase E: one more, alone: must acquire at its first attempt
    let a = next_actor();
    let p = match w.start_m(&a, &kind_args(sc.last, &sc.spec), points, &[]) {
        Ok(p) => p,
        Err(e) => return Outcome::skip(&format!("start: {}", e)),
    };
    match wait_lock_or_exit(w.ctl.as_mut().unwrap(), &a, p, hang) {
        Reached::Parked(c) => {
            let ctl = w.ctl.as_mut().unwrap();
            ctl.send(c, "GO\n");
            let _ = service_until_exit(ctl, &a, p, 0, hang);
            ctl.kill(p);
        }
        Reached::Exited(x) => {
            out.violate("acquire_after_release", "not_at_once", format!("{:?} started after every other invocation had been reaped, yet exited {:?}: {}", sc.last, x.code, String::from_utf8_lossy(&x.stderr).trim()));
            return out;
        }
        Reached::Timeout => {
            out.violate("acquire_after_release", "hung", format!("{:?} neither acquired nor failed", sc.last));
            return out;
        }
    }
    out.trace.push(format!("E: {:?} alone acquired at once", sc.last));
    let mut kinds: Vec<String> = sc.phase_b.iter().chain(sc.phase_d.iter()).chain([sc.first, sc.last].iter()).map(|k| format!("{:?}", k)).collect();
    kinds.sort();
    kinds.dedup();
    out.nontrivial = sc.phase_b.len() + sc.phase_d.len() + 2 >= 3 && kinds.len() >= 2 && sc.first_end != End::Go;
    out.signature = format!("{:?}|{}|{:?}|{:?}|{:?}|{:?}|{:?}", sc.first, sc.hold_at_child, sc.first_end, sc.phase_b, sc.late, sc.phase_d, sc.last) + &format!("|{:?}|{:?}", sc.nested, sc.listen_delay_us);
    out.steps = (sc.phase_b.len() + sc.phase_d.len() + 2) as u64;
    out
}

impl Property for C14 {
    fn id(&self) -> &'static str {
        "C14"
    }
    fn count(&self, tier: Tier) -> usize {
        match tier {
            Tier::Quick => 300,
            Tier::Thorough => 6000,
        }
    }
    fn generate(&self, seed: u64, idx: usize, tier: Tier) -> Value {
        serde_json::to_value(gen_c14(seed, idx, tier)).unwrap()
    }
    fn execute(&self, v: &Value) -> Outcome {
        match serde_json::from_value::<C14Scenario>(v.clone()) {
            Ok(sc) => exec_c14(&sc),
            Err(e) => Outcome::skip(&format!("bad scenario {}", e)),
        }
    }
    fn shrink(&self, v: &Value) -> Vec<Value> {
        let mut outv = vec![];
        if let Ok(sc) = serde_json::from_value::<C14Scenario>(v.clone()) {
            for i in (0..sc.phase_b.len()).rev() {
                if sc.phase_b.len() > 1 {
                    let mut s = sc.clone();
                    s.phase_b.remove(i);
                    outv.push(serde_json::to_value(s).unwrap());
                }
            }
            for i in (0..sc.phase_d.len()).rev() {
                if sc.phase_d.len() > 1 {
                    let mut s = sc.clone();
                    s.phase_d.remove(i);
                    outv.push(serde_json::to_value(s).unwrap());
                }
            }
            if sc.hold_at_child {
                let mut s = sc.clone();
                s.hold_at_child = false;
                outv.push(serde_json::to_value(s).unwrap());
            }
        }
        outv
    }
    fn rule(&self) -> String {
        "4-10 invocations drawn from {run, checkpoint update, checkpoint delete, out delete --all, out delete (no --all: measures only, still a lock taker)} on one lock address; one scenario in four runs its invocations under wrong and jumping wall clocks, over a repository that already has a checkpoint and a completed run: (A) one invocation alone, parked right after lock acquisition (a run holder is in half of the cases released and held at its first child instead); (B') in half of the scenarios one more contender is started and the holder is ended the moment that contender's failed bind() on the lock port has been observed through the shim: it must still exit with a lock error rather than wait its turn; (B) 1-4 contenders started back-to-back while the holder is past the lock: each must exit non-zero with a lock error, start no executable, and leave a content-hash snapshot of the output directory unchanged; (C) the holder ends by normal exit, a failing child, or SIGKILL while parked; (D) 2-4 contenders started together the instant after the reap: exactly one gets past the lock (which one is the kernel's choice and is not recorded), the others fail with a lock error; (E) one more, alone, must acquire at its first attempt. Non-trivial = >= 3 contenders of >= 2 kinds and the holder ended by SIGKILL or failure; distinct = the scenario tuple".into()
    }
    fn components(&self) -> Value {
        json!({
            "real": ["monorail binary: the four mutating APIs, LockServer (TCP bind)", "kernel TCP"],
            "stub": ["children are vhelper"],
            "controlled": ["start order and overlap of invocations", "how long an invocation stays past the lock (cli.lock.acquired point)", "holder termination"]
        })
    }
    fn assumptions(&self) -> Vec<String> {
        vec![
            "lock ports are unique per world and below the kernel's ephemeral range, so only the world's own processes can hold them".into(),
            "'past lock acquisition' is observed at the cli.lock.acquired point placed directly after acquire() in each of the four handlers".into(),
        ]
    }
}
