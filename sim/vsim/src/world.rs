//! A world: a scratch directory holding a generated repository, configuration, command files
//! (all resolving to vhelper) and, when needed, a controller.
use crate::ctl::Ctl;
use serde::{Deserialize, Serialize};
use std::collections::HashMap;
use std::os::unix::ffi::OsStrExt;
use std::os::unix::fs::PermissionsExt;
use std::path::{Path, PathBuf};
use std::process::{Command, Stdio};
use std::sync::atomic::{AtomicU64, Ordering};

#[derive(Serialize, Deserialize, Clone, Debug, Default, PartialEq)]
pub struct TargetSpec {
    pub path: String,
    #[serde(default)]
    pub uses: Vec<String>,
    #[serde(default)]
    pub ignores: Vec<String>,
    /// custom commands.path (relative to the repository root), if any
    #[serde(default)]
    pub commands_path: Option<String>,
    #[serde(default)]
    pub argmaps_path: Option<String>,
    /// commands.definitions: (command, path relative to root; "" = fall back to stem search)
    #[serde(default)]
    pub defs: Vec<(String, String)>,
}

#[derive(Serialize, Deserialize, Clone, Debug, PartialEq)]
pub struct CmdFile {
    pub target: String,
    pub command: String,
    /// path of the file relative to the repository root
    pub rel: String,
    /// false: a regular file without execute permission
    pub exec: bool,
    /// a regular file WITH execute permission whose interpreter does not exist: spawning it fails
    #[serde(default)]
    pub broken: bool,
}

#[derive(Serialize, Deserialize, Clone, Debug, Default, PartialEq)]
pub struct WorldSpec {
    pub targets: Vec<TargetSpec>,
    pub cmd_files: Vec<CmdFile>,
    /// extra files (relative path, content)
    #[serde(default)]
    pub files: Vec<(String, String)>,
    #[serde(default)]
    pub sequences: Vec<(String, Vec<String>)>,
    pub max_retained_runs: usize,
    #[serde(default)]
    pub gitignore: Vec<String>,
    /// initialise a git repository and commit everything
    pub git: bool,
    /// host name of the lock server in the configuration (default 127.0.0.1)
    #[serde(default)]
    pub lock_host: Option<String>,
    /// the configuration relies on the documented default ports: 1 = `server.lock` and `server.log` are
    /// present without `port`, 2 = no `server` section at all. The world then maps 5917/5918 onto its own
    /// reserved pair at the socket-call boundary (shim), so that many such worlds can run at once.
    #[serde(default)]
    pub default_ports: u8,
    /// the configuration does not mention max_retained_runs (documented default: 10); `max_retained_runs` above
    /// must then be 10
    #[serde(default)]
    pub omit_max_retained: bool,
    /// the repository uses SHA-256 object names (64 hex digits) instead of SHA-1
    #[serde(default)]
    pub sha256_repo: bool,
    /// wall-clock faults: the k-th monorail process started in this world (counted cyclically) runs with its
    /// realtime clock shifted by `<offset_secs>` and, with `<offset>:<after_reads>:<delta>`, jumping by <delta>
    /// seconds after that many readings (shim seam FSFAULT_CLOCK). An empty entry is a correct clock.
    #[serde(default)]
    pub clock_plan: Vec<String>,
    /// k > 0: every third command file (those whose index is congruent to k mod 3) is not a link to the helper
    /// binary but a shell script that execs it under its own name, with the interpreter line spelled the k-th way
    /// (`#!/bin/bash`, `#! /bin/bash`, `#!/bin/bash<TAB>-e`, `#!/usr/bin/env bash`): commands are scripts in real
    /// repositories, and the kernel accepts all of these spellings
    #[serde(default)]
    pub script_wrappers: u8,
}

impl WorldSpec {
    pub fn target(&self, path: &str) -> Option<&TargetSpec> {
        self.targets.iter().find(|t| t.path == path)
    }
    pub fn default_cmd_rel(target: &str, command: &str) -> String {
        format!("{}/monorail/cmd/{}.sh", target, command)
    }
    pub fn config_json(&self, lock_port: u16, log_port: u16) -> serde_json::Value {
        let mut targets = vec![];
        for t in &self.targets {
            let mut o = serde_json::Map::new();
            o.insert("path".into(), t.path.clone().into());
            if !t.uses.is_empty() {
                o.insert("uses".into(), t.uses.clone().into());
            }
            if !t.ignores.is_empty() {
                o.insert("ignores".into(), t.ignores.clone().into());
            }
            let mut c = serde_json::Map::new();
            if let Some(p) = &t.commands_path {
                c.insert("path".into(), p.clone().into());
            }
            if !t.defs.is_empty() {
                let mut d = serde_json::Map::new();
                for (k, v) in &t.defs {
                    d.insert(k.clone(), serde_json::json!({ "path": v }));
                }
                c.insert("definitions".into(), d.into());
            }
            if !c.is_empty() {
                o.insert("commands".into(), c.into());
            }
            if let Some(p) = &t.argmaps_path {
                o.insert("argmaps".into(), serde_json::json!({ "path": p }));
            }
            targets.push(serde_json::Value::Object(o));
        }
        let mut cfg = serde_json::json!({
            "max_retained_runs": self.max_retained_runs,
            "targets": targets,
            "server": {
                "lock": {"host": self.lock_host.clone().unwrap_or_else(|| "127.0.0.1".to_string()), "port": lock_port, "bind_timeout_ms": 1000},
                "log": {"host": "127.0.0.1", "port": log_port, "bind_timeout_ms": 1000}
            }
        });
        if self.omit_max_retained {
            cfg.as_object_mut().unwrap().remove("max_retained_runs");
        }
        match self.default_ports {
            1 => {
                cfg["server"] = serde_json::json!({ "lock": {"bind_timeout_ms": 1000}, "log": {"bind_timeout_ms": 1000} });
            }
            2 => {
                cfg.as_object_mut().unwrap().remove("server");
            }
            _ => {}
        }
        if !self.sequences.is_empty() {
            let mut s = serde_json::Map::new();
            for (k, v) in &self.sequences {
                s.insert(k.clone(), v.clone().into());
            }
            cfg["sequences"] = s.into();
        }
        cfg
    }
}

// ---------------------------------------------------------------------------------------------
// ports: reserved across every vsim process on this machine through mkdir in /dev/shm

pub struct PortPair {
    pub lock: u16,
    pub log: u16,
    dir: PathBuf,
}
impl Drop for PortPair {
    fn drop(&mut self) {
        let _ = std::fs::remove_dir_all(&self.dir);
    }
}
static PORT_CTR: AtomicU64 = AtomicU64::new(0);

pub fn alloc_ports() -> Option<PortPair> {
    let base = Path::new("/dev/shm/mv-ports");
    let _ = std::fs::create_dir_all(base);
    let pid = std::process::id() as u64;
    for _ in 0..20000 {
        let c = PORT_CTR.fetch_add(1, Ordering::SeqCst);
        let slot = (pid.wrapping_mul(7919).wrapping_add(c.wrapping_mul(13))) % 4990;
        let lock = 20000 + (slot * 2) as u16;
        let dir = base.join(format!("{}", lock));
        match std::fs::create_dir(&dir) {
            Ok(_) => {}
            Err(_) => {
                // stale reservation of a dead process?
                let owner = std::fs::read_to_string(dir.join("pid"))
                    .ok()
                    .and_then(|s| s.trim().parse::<i32>().ok());
                match owner {
                    Some(p) if unsafe { libc::kill(p, 0) } != 0 => {
                        let _ = std::fs::remove_dir_all(&dir);
                    }
                    _ => {}
                }
                continue;
            }
        }
        let _ = std::fs::write(dir.join("pid"), format!("{}", pid));
        let ok = std::net::TcpListener::bind(("127.0.0.1", lock)).is_ok()
            && std::net::TcpListener::bind(("127.0.0.1", lock + 1)).is_ok();
        if ok {
            return Some(PortPair {
                lock,
                log: lock + 1,
                dir,
            });
        }
        let _ = std::fs::remove_dir_all(&dir);
    }
    None
}

// ---------------------------------------------------------------------------------------------

#[derive(Clone, Debug)]
pub struct CliOut {
    pub code: Option<i32>,
    pub signal: Option<i32>,
    pub stdout: Vec<u8>,
    pub stderr: Vec<u8>,
}
impl CliOut {
    pub fn json(&self) -> Option<serde_json::Value> {
        serde_json::from_slice(&self.stdout).ok()
    }
    pub fn err_json(&self) -> Option<serde_json::Value> {
        // the last non-empty line of stderr is the error document
        let s = String::from_utf8_lossy(&self.stderr);
        s.lines().rev().find(|l| !l.trim().is_empty()).and_then(|l| serde_json::from_str(l).ok())
    }
    pub fn out_str(&self) -> String {
        String::from_utf8_lossy(&self.stdout).into_owned()
    }
    pub fn err_str(&self) -> String {
        String::from_utf8_lossy(&self.stderr).into_owned()
    }
}

fn cli_limit_ms() -> u64 {
    // three hang bounds: an uncontrolled CLI call has no controller to answer, it only has to finish
    3 * std::env::var("VERIF_HANG_MS").ok().and_then(|s| s.parse().ok()).unwrap_or(10_000u64)
}

/// user+system CPU ticks of a process and its reaped children
fn proc_cpu_ticks(pid: i32) -> u64 {
    std::fs::read_to_string(format!("/proc/{}/stat", pid))
        .ok()
        .and_then(|s| {
            let i = s.rfind(')')?;
            let f: Vec<&str> = s[i + 1..].split_whitespace().collect();
            Some((11..15).map(|k| f.get(k).and_then(|x| x.parse::<u64>().ok()).unwrap_or(0)).sum())
        })
        .unwrap_or(0)
}

pub fn shim_path() -> PathBuf {
    std::env::var("VERIF_SHIM")
        .map(PathBuf::from)
        .unwrap_or_else(|_| crate::harness::verif_root().join(".build/libfsfault.so"))
}

/// directory of the binaries under test: next to this executable
pub fn bin_dir() -> PathBuf {
    std::env::var("VERIF_BIN_DIR")
        .map(PathBuf::from)
        .unwrap_or_else(|_| std::env::current_exe().ok().and_then(|e| e.parent().map(|p| p.to_path_buf())).unwrap_or_else(|| PathBuf::from("/verif/.build/target/debug")))
}

static WORLD_CTR: AtomicU64 = AtomicU64::new(0);

pub fn scratch_base() -> PathBuf {
    PathBuf::from(format!("/dev/shm/mv-{}", std::process::id()))
}

pub struct World {
    pub root: PathBuf,
    pub spec: WorldSpec,
    pub ports: PortPair,
    pub ctl: Option<Ctl>,
    /// argv0 (absolute path of the command file) -> (target, command)
    pub argv0_map: HashMap<Vec<u8>, (String, String)>,
    git_clock: u64,
    pub knobs: Vec<(String, String)>,
    pub config_name: String,
    /// RLIMIT_NOFILE for every monorail process of this world (a resource fault: descriptor exhaustion
    /// must never change an answer silently)
    pub nofile: Option<u64>,
    /// working directory of every monorail invocation, relative to the root (None = the root itself)
    pub cwd_rel: Option<String>,
    clock_idx: std::cell::Cell<usize>,
}

/// how many monorail processes were started with a wrong or jumping wall clock (evidence)
pub static CLOCK_FAULTS: std::sync::atomic::AtomicU64 = std::sync::atomic::AtomicU64::new(0);

/// A clock plan for a history: offsets from seconds to years in both directions, some with a jump in the middle
/// of the invocation; about one entry in four is a correct clock.
pub fn gen_clock_plan(rng: &mut crate::prng::Rng) -> Vec<String> {
    let n = rng.range(5, 9);
    (0..n)
        .map(|_| {
            if rng.chance(1, 4) {
                return String::new();
            }
            let off = *rng.pick(&[-157_000_000i64, -3_456_000, -86_400, -3_600, -2, 0, 1, 3_600, 86_400, 34_560_000, 378_000_000]);
            if rng.chance(1, 3) {
                format!("{}:{}:{}", off, rng.range(0, 6), *rng.pick(&[-172_800i64, -3_600, -1, 3_600, 2_592_000]))
            } else {
                off.to_string()
            }
        })
        .collect()
}

impl Drop for World {
    fn drop(&mut self) {
        self.ctl = None; // kills every process group first
        let _ = std::fs::remove_dir_all(&self.root);
    }
}

impl World {
    /// Create the directory tree, configuration, command files and (optionally) the git repository.
    pub fn create(spec: &WorldSpec, with_ctl: bool) -> Result<World, String> {
        let ports = alloc_ports().ok_or("no free port pair")?;
        let k = WORLD_CTR.fetch_add(1, Ordering::SeqCst);
        let root = scratch_base().join(format!("w{}", k));
        let _ = std::fs::remove_dir_all(&root);
        std::fs::create_dir_all(&root).map_err(|e| e.to_string())?;
        let mut w = World {
            root: root.clone(),
            spec: spec.clone(),
            ports,
            ctl: None,
            argv0_map: HashMap::new(),
            git_clock: 0,
            knobs: vec![],
            config_name: "Monorail.json".into(),
            nofile: None,
            cwd_rel: None,
            clock_idx: std::cell::Cell::new(0),
        };
        let helper = bin_dir().join("vhelper");
        for t in &spec.targets {
            std::fs::create_dir_all(root.join(&t.path)).map_err(|e| e.to_string())?;
            w.write_file(&format!("{}/file.txt", t.path), &format!("{}\n", t.path))?;
        }
        for (cf_index, cf) in spec.cmd_files.iter().enumerate() {
            let p = root.join(&cf.rel);
            if let Some(d) = p.parent() {
                std::fs::create_dir_all(d).map_err(|e| e.to_string())?;
            }
            if cf.broken {
                std::fs::write(&p, b"#!/nonexistent/interpreter\n").map_err(|e| e.to_string())?;
                std::fs::set_permissions(&p, std::fs::Permissions::from_mode(0o755)).map_err(|e| e.to_string())?;
            } else if cf.exec {
                // one file may serve several targets (a shared script named in their `definitions`)
                if std::fs::symlink_metadata(&p).is_err() {
                    let k = spec.script_wrappers as usize;
                    if k > 0 && cf_index % 3 == k % 3 {
                        let shebang = ["#!/bin/bash", "#! /bin/bash", "#!/bin/bash\t-e", "#!/usr/bin/env bash"][(k - 1) % 4];
                        let body = format!("{}\nexec -a \"$0\" '{}' \"$@\"\n", shebang, helper.display());
                        std::fs::write(&p, body).map_err(|e| e.to_string())?;
                        std::fs::set_permissions(&p, std::fs::Permissions::from_mode(0o755)).map_err(|e| e.to_string())?;
                    } else {
                        std::os::unix::fs::symlink(&helper, &p).map_err(|e| e.to_string())?;
                    }
                }
            } else {
                std::fs::write(&p, b"#!/bin/false\n").map_err(|e| e.to_string())?;
                std::fs::set_permissions(&p, std::fs::Permissions::from_mode(0o644))
                    .map_err(|e| e.to_string())?;
            }
            let key = p.as_os_str().as_bytes().to_vec();
            if let Some((t0, _)) = w.argv0_map.get(&key) {
                if *t0 != cf.target {
                    // shared by several targets: the working directory of the process tells whose it is
                    w.argv0_map.insert(key, ("*".to_string(), cf.command.clone()));
                    continue;
                }
            }
            w.argv0_map.insert(key, (cf.target.clone(), cf.command.clone()));
        }
        for (rel, content) in &spec.files {
            w.write_file(rel, content)?;
        }
        w.write_config()?;
        if spec.git {
            // the configuration file carries the world's ports; keeping it out of the repository makes
            // commit ids a function of the scenario alone
            let mut gi = vec!["monorail-out".to_string(), ".ctl".to_string(), "/Monorail.json".to_string(), "/.backup-out".to_string(), "/.fs.log".to_string()];
            gi.extend(spec.gitignore.iter().cloned());
            w.write_file(".gitignore", &(gi.join("\n") + "\n"))?;
            if spec.sha256_repo {
                w.git(&["init", "-q", "-b", "main", "--object-format=sha256"])?;
            } else {
                w.git(&["init", "-q", "-b", "main"])?;
            }
            w.git(&["add", "-A"])?;
            w.git(&["commit", "-q", "-m", "init"])?;
        }
        if with_ctl {
            std::fs::create_dir_all(root.join(".ctl")).map_err(|e| e.to_string())?;
            w.ctl = Some(Ctl::new(&root.join(".ctl/s")).map_err(|e| e.to_string())?);
        }
        Ok(w)
    }

    pub fn write_config(&self) -> Result<(), String> {
        let cfg = self.spec.config_json(self.ports.lock, self.ports.log);
        std::fs::write(
            self.root.join(&self.config_name),
            serde_json::to_vec_pretty(&cfg).unwrap(),
        )
        .map_err(|e| e.to_string())
    }

    pub fn write_file(&self, rel: &str, content: &str) -> Result<(), String> {
        self.write_bytes(rel, content.as_bytes())
    }
    pub fn write_bytes(&self, rel: &str, content: &[u8]) -> Result<(), String> {
        let p = self.root.join(rel);
        if let Some(d) = p.parent() {
            std::fs::create_dir_all(d).map_err(|e| e.to_string())?;
        }
        std::fs::write(&p, content).map_err(|e| format!("write {}: {}", rel, e))
    }

    fn base_env(&self, cmd: &mut Command) {
        cmd.env_clear();
        cmd.env("PATH", std::env::var("PATH").unwrap_or_else(|_| "/usr/bin:/bin".into()));
        cmd.env("HOME", &self.root);
        cmd.env("LC_ALL", "C");
        cmd.env("TZ", "UTC");
        cmd.env("GIT_CONFIG_GLOBAL", "/dev/null");
        cmd.env("GIT_CONFIG_NOSYSTEM", "1");
        cmd.env("GIT_AUTHOR_NAME", "sim");
        cmd.env("GIT_AUTHOR_EMAIL", "sim@example.invalid");
        cmd.env("GIT_COMMITTER_NAME", "sim");
        cmd.env("GIT_COMMITTER_EMAIL", "sim@example.invalid");
    }

    /// Run git in the world with a pinned environment; commit dates come from a logical clock.
    pub fn git(&mut self, args: &[&str]) -> Result<String, String> {
        let o = self.git_raw(args)?;
        if o.code != Some(0) {
            return Err(format!("git {:?} failed: {}", args, o.err_str()));
        }
        Ok(o.out_str())
    }
    pub fn git_raw(&mut self, args: &[&str]) -> Result<CliOut, String> {
        self.git_clock += 1;
        let date = format!("@{} +0000", 1_700_000_000 + self.git_clock * 60);
        let mut cmd = Command::new("git");
        self.base_env(&mut cmd);
        cmd.env("GIT_AUTHOR_DATE", &date).env("GIT_COMMITTER_DATE", &date);
        cmd.args(args).current_dir(&self.root).stdin(Stdio::null());
        let o = cmd.output().map_err(|e| e.to_string())?;
        Ok(CliOut {
            code: o.status.code(),
            signal: std::os::unix::process::ExitStatusExt::signal(&o.status),
            stdout: o.stdout,
            stderr: o.stderr,
        })
    }

    pub fn monorail_cmd(&self, args: &[String]) -> Command {
        let mut cmd = Command::new(bin_dir().join("monorail"));
        self.base_env(&mut cmd);
        for (k, v) in &self.knobs {
            cmd.env(k, v);
        }
        if self.spec.default_ports != 0 {
            cmd.env("LD_PRELOAD", shim_path());
            cmd.env("FSFAULT_PORTMAP", format!("5917:{},5918:{}", self.ports.lock, self.ports.log));
        }
        if !self.spec.clock_plan.is_empty() {
            let k = self.clock_idx.get();
            self.clock_idx.set(k + 1);
            let c = &self.spec.clock_plan[k % self.spec.clock_plan.len()];
            if !c.is_empty() {
                cmd.env("LD_PRELOAD", shim_path());
                cmd.env("FSFAULT_CLOCK", c);
                CLOCK_FAULTS.fetch_add(1, Ordering::Relaxed);
            }
        }
        cmd.arg("-f").arg(self.root.join(&self.config_name));
        cmd.args(args);
        match &self.cwd_rel {
            Some(d) => cmd.current_dir(self.root.join(d)),
            None => cmd.current_dir(&self.root),
        };
        if let Some(n) = self.nofile {
            use std::os::unix::process::CommandExt;
            unsafe {
                cmd.pre_exec(move || {
                    let lim = libc::rlimit { rlim_cur: n as libc::rlim_t, rlim_max: n as libc::rlim_t };
                    libc::setrlimit(libc::RLIMIT_NOFILE, &lim);
                    Ok(())
                });
            }
        }
        cmd
    }

    /// An uncontrolled CLI invocation (no controller socket in its environment): points are inert
    /// and any vhelper it might start exits 0 immediately.
    pub fn cli(&self, args: &[&str]) -> CliOut {
        let a: Vec<String> = args.iter().map(|s| s.to_string()).collect();
        self.cli_v(&a)
    }
    pub fn cli_v(&self, args: &[String]) -> CliOut {
        let mut cmd = self.monorail_cmd(args);
        cmd.stdin(Stdio::null()).stdout(Stdio::piped()).stderr(Stdio::piped());
        use std::os::unix::process::CommandExt;
        cmd.process_group(0);
        let mut ch = match cmd.spawn() {
            Ok(c) => c,
            Err(e) => {
                return CliOut { code: None, signal: None, stdout: vec![], stderr: format!("spawn failed: {}", e).into_bytes() };
            }
        };
        // both pipes are drained by threads; an invocation that does not end within the limit (it hangs:
        // a child it never reaps, a pipe nobody drains) is killed and reported as such instead of hanging the check
        let (mut so, mut se) = (ch.stdout.take().unwrap(), ch.stderr.take().unwrap());
        let t1 = std::thread::spawn(move || {
            let mut b = Vec::new();
            let _ = std::io::Read::read_to_end(&mut so, &mut b);
            b
        });
        let t2 = std::thread::spawn(move || {
            let mut b = Vec::new();
            let _ = std::io::Read::read_to_end(&mut se, &mut b);
            b
        });
        let limit = std::time::Duration::from_millis(cli_limit_ms());
        let t0 = std::time::Instant::now();
        let pid = ch.id() as i32;
        let mut last_cpu = proc_cpu_ticks(pid);
        let mut last_progress = t0;
        let status = loop {
            match ch.try_wait() {
                Ok(Some(st)) => break Some(st),
                Ok(None) => {}
                Err(_) => break None,
            }
            // "no CPU used for the whole limit" is a hang; a busy process gets up to six limits
            let cpu = proc_cpu_ticks(pid);
            if cpu > last_cpu + 2 {
                last_cpu = cpu;
                last_progress = std::time::Instant::now();
            }
            if last_progress.elapsed() > limit || t0.elapsed() > limit * 6 {
                unsafe {
                    libc::kill(-pid, libc::SIGKILL);
                }
                let _ = ch.wait();
                let _ = t1.join();
                let _ = t2.join();
                return CliOut { code: None, signal: Some(9), stdout: vec![], stderr: format!("the invocation {:?} did not end within {} ms without using any CPU (hang); killed", args, limit.as_millis()).into_bytes() };
            }
            std::thread::sleep(std::time::Duration::from_millis(2));
        };
        let stdout = t1.join().unwrap_or_default();
        let stderr = t2.join().unwrap_or_default();
        match status {
            Some(st) => CliOut { code: st.code(), signal: std::os::unix::process::ExitStatusExt::signal(&st), stdout, stderr },
            None => CliOut { code: None, signal: None, stdout, stderr },
        }
    }
    pub fn cli_stdin(&self, args: &[&str], input: &[u8]) -> CliOut {
        use std::io::Write;
        let a: Vec<String> = args.iter().map(|s| s.to_string()).collect();
        let mut cmd = self.monorail_cmd(&a);
        cmd.stdin(Stdio::piped()).stdout(Stdio::piped()).stderr(Stdio::piped());
        let mut ch = match cmd.spawn() {
            Ok(c) => c,
            Err(e) => {
                return CliOut {
                    code: None,
                    signal: None,
                    stdout: vec![],
                    stderr: e.to_string().into_bytes(),
                }
            }
        };
        if let Some(mut si) = ch.stdin.take() {
            let _ = si.write_all(input);
        }
        let o = ch.wait_with_output().unwrap();
        CliOut {
            code: o.status.code(),
            signal: std::os::unix::process::ExitStatusExt::signal(&o.status),
            stdout: o.stdout,
            stderr: o.stderr,
        }
    }

    /// Start a controlled monorail process: the controller socket and actor name are in its environment.
    pub fn start_m(&mut self, actor: &str, args: &[String], points: &str, extra_env: &[(String, String)]) -> Result<usize, String> {
        let mut cmd = self.monorail_cmd(args);
        let ctl = self.ctl.as_mut().ok_or("world has no controller")?;
        cmd.env("MONORAIL_VERIF_CTL", &ctl.sock_path);
        cmd.env("MONORAIL_VERIF_ACTOR", actor);
        cmd.env("MONORAIL_VERIF_POINTS", points);
        for (k, v) in extra_env {
            cmd.env(k, v);
        }
        ctl.spawn(actor, cmd, false).map_err(|e| e.to_string())
    }

    /// As `start_m`, with a stdout that nobody reads until the returned gate is set.
    pub fn start_m_gated(&mut self, actor: &str, args: &[String], points: &str, extra_env: &[(String, String)]) -> Result<(usize, std::sync::Arc<std::sync::atomic::AtomicBool>), String> {
        let mut cmd = self.monorail_cmd(args);
        let ctl = self.ctl.as_mut().ok_or("world has no controller")?;
        cmd.env("MONORAIL_VERIF_CTL", &ctl.sock_path);
        cmd.env("MONORAIL_VERIF_ACTOR", actor);
        cmd.env("MONORAIL_VERIF_POINTS", points);
        for (k, v) in extra_env {
            cmd.env(k, v);
        }
        let gate = std::sync::Arc::new(std::sync::atomic::AtomicBool::new(false));
        let id = ctl.spawn_gated(actor, cmd, false, Some(gate.clone())).map_err(|e| e.to_string())?;
        Ok((id, gate))
    }

    /// Route this world's monorail processes through the shim with a seeded getrandom(): the
    /// iteration order of std HashMap/HashSet (e.g. explicit -t targets) becomes a function of `seed`.
    pub fn set_rand_seed(&mut self, seed: u64) {
        self.knobs.retain(|(k, _)| k != "LD_PRELOAD" && k != "FSFAULT_RANDSEED");
        self.knobs.push(("LD_PRELOAD".into(), shim_path().to_string_lossy().into_owned()));
        self.knobs.push(("FSFAULT_RANDSEED".into(), seed.to_string()));
    }

    pub fn out_dir(&self) -> PathBuf {
        self.root.join("monorail-out")
    }

    /// relative path -> sha256 hex of every regular file below `dir` (symlinks not followed)
    pub fn snapshot_dir(&self, dir: &Path) -> std::collections::BTreeMap<String, String> {
        use sha2::Digest;
        let mut out = std::collections::BTreeMap::new();
        let mut stack = vec![dir.to_path_buf()];
        while let Some(d) = stack.pop() {
            let rd = match std::fs::read_dir(&d) {
                Ok(r) => r,
                Err(_) => continue,
            };
            for e in rd.flatten() {
                let p = e.path();
                let md = match std::fs::symlink_metadata(&p) {
                    Ok(m) => m,
                    Err(_) => continue,
                };
                let rel = p.strip_prefix(dir).unwrap().to_string_lossy().into_owned();
                if md.is_dir() {
                    out.insert(format!("{}/", rel), "dir".into());
                    stack.push(p);
                } else if md.is_file() {
                    let b = std::fs::read(&p).unwrap_or_default();
                    let mut h = sha2::Sha256::new();
                    h.update(&b);
                    out.insert(rel, format!("{:x}", h.finalize()));
                }
            }
        }
        out
    }
}

pub fn sha256_hex(b: &[u8]) -> String {
    use sha2::Digest;
    let mut h = sha2::Sha256::new();
    h.update(b);
    format!("{:x}", h.finalize())
}

/// Decode a zstd file independently of monorail.
pub fn read_zst(p: &Path) -> Result<Vec<u8>, String> {
    let b = std::fs::read(p).map_err(|e| format!("{}: {}", p.display(), e))?;
    if b.is_empty() {
        return Err(format!("{}: empty file", p.display()));
    }
    zstd::stream::decode_all(&b[..]).map_err(|e| format!("{}: {}", p.display(), e))
}

pub fn cleanup_scratch() {
    let _ = std::fs::remove_dir_all(scratch_base());
}
