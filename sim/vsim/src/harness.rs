//! Shared harness: seeded scenario loop over worker threads, violation handling (known findings,
//! minimisation, replay file, replay verification), evidence writer.
use crate::prng::{hash_str, mix};
use serde_json::{json, Value};
use std::collections::{BTreeMap, BTreeSet, HashSet};
use std::sync::atomic::{AtomicBool, AtomicUsize, Ordering};
use std::sync::Mutex;
use std::time::Instant;

#[derive(Clone, Copy, PartialEq, Debug)]
pub enum Tier {
    Quick,
    Thorough,
}
impl Tier {
    pub fn name(&self) -> &'static str {
        match self {
            Tier::Quick => "quick",
            Tier::Thorough => "thorough",
        }
    }
}

#[derive(Clone, Debug)]
pub struct Violation {
    /// check identifier (DESIGN appendix A.4)
    pub check: String,
    /// root-cause class computed by the property's classifier; check/class is the known-finding key
    pub class: String,
    pub msg: String,
}
impl Violation {
    pub fn new(check: &str, class: &str, msg: String) -> Violation {
        Violation {
            check: check.into(),
            class: class.into(),
            msg,
        }
    }
    pub fn key(&self) -> String {
        format!("{}/{}", self.check, self.class)
    }
}

#[derive(Clone, Debug, Default)]
pub struct Outcome {
    pub violations: Vec<Violation>,
    /// scenario could not be judged (port taken, model uncertain, both-reject ...): counted, never failed
    pub skipped: Option<String>,
    pub nontrivial: bool,
    /// canonical description of what was explored, hashed for the distinct count
    pub signature: String,
    pub trace: Vec<String>,
    pub faults: BTreeMap<String, u64>,
    pub probes: BTreeMap<String, u64>,
    pub advisories: Vec<String>,
    pub steps: u64,
    pub sim_ms: u64,
    /// sub-executions inside the scenario (crash points, API calls, analyses ...)
    pub sub_evals: u64,
    /// a scenario that stands for a batch of generated cases reports them here
    pub extra_evals: u64,
    /// signatures of the distinct non-trivial cases of a batch
    pub sigs: Vec<u64>,
    /// explicit (already minimised) scenario to use for replay instead of the generated one
    pub explicit: Option<Value>,
    /// hash of the canonical trace (set by the harness before traces of later scenarios are dropped)
    pub trace_hash: u64,
}
impl Outcome {
    /// Under an injected descriptor limit an invocation may fail, provided it fails loudly: an error that
    /// names the exhausted resource is tolerated (the scenario is counted as skipped), a wrong answer, a
    /// silent omission or a hang is not.
    pub fn tolerate_loud_descriptor_exhaustion(&mut self, limited: bool) {
        if limited && !self.violations.is_empty() && self.violations.iter().all(|v| v.msg.contains("Too many open files") || v.msg.contains("os error 24")) {
            self.violations.clear();
            self.skipped = Some("descriptor_limit_hit_loudly(tolerated under the injected limit)".into());
        }
    }
    pub fn skip(reason: &str) -> Outcome {
        Outcome {
            skipped: Some(reason.to_string()),
            ..Default::default()
        }
    }
    pub fn fault(&mut self, kind: &str, n: u64) {
        *self.faults.entry(kind.to_string()).or_insert(0) += n;
    }
    pub fn probe(&mut self, kind: &str, n: u64) {
        *self.probes.entry(kind.to_string()).or_insert(0) += n;
    }
    pub fn violate(&mut self, check: &str, class: &str, msg: String) {
        self.violations.push(Violation::new(check, class, msg));
    }
}

pub trait Property: Sync {
    fn id(&self) -> &'static str;
    fn level(&self) -> &'static str {
        "exploration"
    }
    fn count(&self, tier: Tier) -> usize;
    /// explicit scenario for (seed, index); execution never looks at the seed again
    fn generate(&self, seed: u64, idx: usize, tier: Tier) -> Value;
    fn execute(&self, scenario: &Value) -> Outcome;
    /// smaller variants of a scenario, most aggressive first
    fn shrink(&self, _scenario: &Value) -> Vec<Value> {
        vec![]
    }
    fn rule(&self) -> String;
    fn components(&self) -> Value;
    fn assumptions(&self) -> Vec<String>;
    /// extra coverage keys computed from all outcomes
    fn extra_coverage(&self, _outs: &[(usize, Outcome)]) -> Value {
        json!({})
    }
}

/// evidence samples show what a case looks like; long payload strings are cut
fn shorten(v: &Value) -> Value {
    match v {
        Value::String(s) if s.len() > 240 => Value::String(format!("{}...({} chars)", s.chars().take(160).collect::<String>(), s.len())),
        Value::Array(a) => {
            let mut out: Vec<Value> = a.iter().take(40).map(shorten).collect();
            if a.len() > 40 {
                out.push(Value::String(format!("...({} more items)", a.len() - 40)));
            }
            Value::Array(out)
        }
        Value::Object(m) => Value::Object(m.iter().map(|(k, x)| (k.clone(), shorten(x))).collect()),
        other => other.clone(),
    }
}

pub fn verif_seed() -> u64 {
    std::env::var("VERIF_SEED")
        .ok()
        .and_then(|s| s.trim().parse::<u64>().ok())
        .unwrap_or(20260101)
}

/// The verification directory: VERIF_ROOT, else the directory that holds `.build/target/debug/vsim`.
pub fn verif_root() -> std::path::PathBuf {
    if let Ok(r) = std::env::var("VERIF_ROOT") {
        return std::path::PathBuf::from(r);
    }
    std::env::current_exe()
        .ok()
        .and_then(|e| e.parent().and_then(|p| p.parent()).and_then(|p| p.parent()).and_then(|p| p.parent()).map(|p| p.to_path_buf()))
        .filter(|p| p.join("sim").is_dir())
        .unwrap_or_else(|| std::path::PathBuf::from("/verif"))
}

pub struct Known {
    pub findings: Vec<(String, String, String)>, // (property, key, text)
}
impl Known {
    pub fn load() -> Known {
        let mut findings = vec![];
        if let Ok(s) = std::fs::read_to_string(verif_root().join("KNOWN_FINDINGS.txt")) {
            for l in s.lines() {
                let l = l.trim();
                if let Some(rest) = l.strip_prefix("finding:") {
                    let mut prop = String::new();
                    let mut key = String::new();
                    let mut text = vec![];
                    for tok in rest.split_whitespace() {
                        if let Some(p) = tok.strip_prefix("property=") {
                            if prop.is_empty() {
                                prop = p.to_string();
                                continue;
                            }
                        }
                        if let Some(k) = tok.strip_prefix("key=") {
                            if key.is_empty() {
                                key = k.to_string();
                                continue;
                            }
                        }
                        text.push(tok);
                    }
                    findings.push((prop, key, text.join(" ")));
                }
            }
        }
        Known { findings }
    }
    pub fn lookup(&self, prop: &str, key: &str) -> Option<&str> {
        self.findings
            .iter()
            .find(|(p, k, _)| p == prop && k == key)
            .map(|(_, _, t)| t.as_str())
    }
}

fn n_workers() -> usize {
    std::env::var("VERIF_WORKERS")
        .ok()
        .and_then(|s| s.parse().ok())
        .unwrap_or(16)
}

pub fn scenario_seed(seed: u64, prop: &str, idx: usize) -> u64 {
    mix(&[seed, hash_str(prop), idx as u64])
}

fn minimise(prop: &dyn Property, sc: &Value, key: &str, budget: usize) -> (Value, usize) {
    let mut cur = sc.clone();
    let mut used = 0usize;
    loop {
        let mut progress = false;
        for cand in prop.shrink(&cur) {
            if used >= budget {
                return (cur, used);
            }
            used += 1;
            let out = prop.execute(&cand);
            if out.violations.iter().any(|v| v.key() == key) {
                cur = cand;
                progress = true;
                break;
            }
        }
        if !progress {
            return (cur, used);
        }
    }
}

static PANICS: AtomicUsize = AtomicUsize::new(0);

/// Run a property's check. Returns the process exit code.
pub fn run_check(prop: &dyn Property, tier: Tier) -> i32 {
    let seed = verif_seed();
    let pid = prop.id();
    println!("VERIF_SEED={} property={} tier={}", seed, pid, tier.name());
    let t0 = Instant::now();
    let n = std::env::var("VERIF_COUNT")
        .ok()
        .and_then(|s| s.parse().ok())
        .unwrap_or_else(|| prop.count(tier));
    let workers = n_workers().min(n.max(1));
    let next = AtomicUsize::new(0);
    let stop = AtomicBool::new(false);
    let found = AtomicUsize::new(0);
    let wall_cap = std::env::var("VERIF_WALL_CAP_S")
        .ok()
        .and_then(|s| s.parse::<u64>().ok())
        .unwrap_or(match tier {
            Tier::Quick => 600,
            Tier::Thorough => 3600,
        });
    let results: Mutex<Vec<(usize, Value, Outcome)>> = Mutex::new(Vec::new());
    let capped = AtomicBool::new(false);
    std::thread::scope(|s| {
        for _ in 0..workers {
            s.spawn(|| loop {
                if stop.load(Ordering::SeqCst) {
                    break;
                }
                if t0.elapsed().as_secs() > wall_cap {
                    capped.store(true, Ordering::SeqCst);
                    break;
                }
                let i = next.fetch_add(1, Ordering::SeqCst);
                if i >= n {
                    break;
                }
                let sc = prop.generate(seed, i, tier);
                // a panic inside an oracle (an observation it was not written for) must not take the whole check down
                // with it: the scenario is counted as skipped and the check ends as a harness error (exit 2) unless
                // violations were found
                let out = match std::panic::catch_unwind(std::panic::AssertUnwindSafe(|| prop.execute(&sc))) {
                    Ok(o) => o,
                    Err(e) => {
                        let msg = e.downcast_ref::<String>().cloned().or_else(|| e.downcast_ref::<&str>().map(|s| s.to_string())).unwrap_or_default();
                        eprintln!("harness error: scenario {} panicked: {}", i, msg);
                        PANICS.fetch_add(1, Ordering::SeqCst);
                        Outcome::skip("harness_panic(oracle not prepared for this observation)")
                    }
                };
                if !out.violations.is_empty() && found.fetch_add(1, Ordering::SeqCst) + 1 >= 8 {
                    stop.store(true, Ordering::SeqCst);
                }
                // keep scenarios only where needed (violations, first few samples)
                let keep = !out.violations.is_empty() || i < 64;
                let mut out = out;
                let sc = match out.explicit.take() {
                    Some(x) if !out.violations.is_empty() => x,
                    _ => sc,
                };
                out.trace_hash = hash_str(&out.trace.join("\n"));
                if !keep {
                    out.trace.clear();
                }
                results.lock().unwrap().push((i, if keep { sc } else { Value::Null }, out));
            });
        }
    });
    let mut results = results.into_inner().unwrap();
    results.sort_by_key(|r| r.0);
    let explore_s = t0.elapsed().as_secs_f64();

    // ---- determinism sample: re-execute a few scenarios and compare canonical traces
    let det_n = match tier {
        Tier::Quick => 4usize,
        Tier::Thorough => 16,
    };
    let mut det_pairs = 0;
    let mut det_mismatch = 0;
    let mut det_detail = vec![];
    for (i, sc, out) in results.iter().filter(|r| !r.1.is_null() && r.2.skipped.is_none() && r.2.violations.is_empty()).take(det_n) {
        let again = prop.execute(sc);
        if again.skipped.is_some() {
            continue;
        }
        det_pairs += 1;
        if again.trace != out.trace {
            det_mismatch += 1;
            let pos = again.trace.iter().zip(out.trace.iter()).position(|(a, b)| a != b).unwrap_or(again.trace.len().min(out.trace.len()));
            det_detail.push(json!({"index": i, "first_diff_line": pos, "a": out.trace.get(pos), "b": again.trace.get(pos)}));
        }
    }

    // ---- aggregate
    let known = Known::load();
    let mut evaluations = 0u64;
    let mut skipped: BTreeMap<String, u64> = BTreeMap::new();
    let mut distinct: HashSet<u64> = HashSet::new();
    let mut faults: BTreeMap<String, u64> = BTreeMap::new();
    let mut probes: BTreeMap<String, u64> = BTreeMap::new();
    let mut samples = vec![];
    let mut steps = 0u64;
    let mut sim_ms = 0u64;
    let mut sub_evals = 0u64;
    let mut advisories: BTreeMap<String, u64> = BTreeMap::new();
    let mut trace_hashes: HashSet<u64> = HashSet::new();
    for (i, sc, out) in &results {
        if let Some(r) = &out.skipped {
            *skipped.entry(r.clone()).or_insert(0) += 1;
            continue;
        }
        evaluations += 1 + out.extra_evals;
        trace_hashes.insert(out.trace_hash);
        for s in &out.sigs {
            distinct.insert(*s);
        }
        steps += out.steps;
        sim_ms += out.sim_ms;
        sub_evals += out.sub_evals;
        for (k, v) in &out.faults {
            *faults.entry(k.clone()).or_insert(0) += v;
        }
        for (k, v) in &out.probes {
            *probes.entry(k.clone()).or_insert(0) += v;
        }
        for a in &out.advisories {
            *advisories.entry(a.clone()).or_insert(0) += 1;
        }
        if out.nontrivial {
            let fresh = distinct.insert(hash_str(&out.signature));
            if fresh && samples.len() < 3 && !sc.is_null() {
                let t: Vec<&String> = out.trace.iter().take(60).collect();
                samples.push(json!({"index": i, "scenario": shorten(sc), "trace_head": t}));
            }
        }
    }
    if samples.is_empty() {
        if let Some((i, sc, out)) = results.iter().find(|r| r.2.skipped.is_none() && !r.1.is_null()) {
            let t: Vec<&String> = out.trace.iter().take(60).collect();
            samples.push(json!({"index": i, "scenario": shorten(sc), "trace_head": t}));
        }
    }

    // ---- violations
    let mut by_key: BTreeMap<String, Vec<usize>> = BTreeMap::new();
    for (ri, (_, _, out)) in results.iter().enumerate() {
        let mut seen = BTreeSet::new();
        for v in &out.violations {
            if seen.insert(v.key()) {
                by_key.entry(v.key()).or_default().push(ri);
            }
        }
    }
    let mut n_violations = 0;
    let mut known_lines = vec![];
    let mut exit_code = 0;
    let replay_dir = verif_root().join("replays");
    let _ = std::fs::create_dir_all(&replay_dir);
    let mut reported = 0;
    let mut unreproduced: Vec<String> = vec![];
    for (key, ris) in &by_key {
        if let Some(text) = known.lookup(pid, key) {
            let line = format!("KNOWN-FINDING: property={} {} [key={} hits={}]", pid, text, key, ris.len());
            println!("{}", line);
            known_lines.push(line);
            continue;
        }
        n_violations += ris.len();
        if reported >= 3 {
            continue;
        }
        reported += 1;
        let (idx, sc, out) = &results[ris[0]];
        let v = out.violations.iter().find(|v| &v.key() == key).unwrap();
        let base = format!("{}-{}-{}-{}", pid, seed, idx, key.replace('/', "_").replace(|c: char| !c.is_ascii_alphanumeric() && c != '_' && c != '-', "_"));
        let orig_path = replay_dir.join(format!("{}.orig.json", base));
        let doc = json!({"property": pid, "check": v.check, "class": v.class, "key": key, "seed": seed, "index": idx,
            "message": v.msg, "minimised": false, "scenario": sc, "trace": out.trace});
        let _ = std::fs::write(&orig_path, serde_json::to_vec_pretty(&doc).unwrap());
        let budget = std::env::var("VERIF_SHRINK_BUDGET").ok().and_then(|s| s.parse().ok()).unwrap_or(40usize);
        let (min_sc, used) = minimise(prop, sc, key, budget);
        let min_out = prop.execute(&min_sc);
        let (fin_sc, fin_out, minimised) = if min_out.violations.iter().any(|x| &x.key() == key) {
            (min_sc, min_out, true)
        } else {
            (sc.clone(), out.clone(), false)
        };
        let fv = fin_out.violations.iter().find(|x| &x.key() == key).unwrap();
        let path = replay_dir.join(format!("{}.json", base));
        let doc = json!({"property": pid, "check": fv.check, "class": fv.class, "key": key, "seed": seed, "index": idx,
            "message": fv.msg, "minimised": minimised, "shrink_candidates_tried": used, "parent": orig_path.to_string_lossy(),
            "scenario": fin_sc, "trace": fin_out.trace});
        let _ = std::fs::write(&path, serde_json::to_vec_pretty(&doc).unwrap());
        // replay in a fresh process: the minimised file first; if that never reproduces (a verdict that
        // hangs on a choice the kernel makes, e.g. which of two simultaneous binds wins), the original
        let replay_once = |p: &std::path::Path| -> bool {
            std::process::Command::new(std::env::current_exe().unwrap())
                .arg("replay")
                .arg(p)
                .stdout(std::process::Stdio::null())
                .status()
                .map(|st| st.code() == Some(1))
                .unwrap_or(false)
        };
        let mut reproduced = 0;
        let tries = 5;
        let mut path = path;
        for _ in 0..tries {
            if replay_once(&path) {
                reproduced += 1;
                break;
            }
        }
        if reproduced == 0 && minimised {
            for _ in 0..tries {
                if replay_once(&orig_path) {
                    reproduced += 1;
                    path = orig_path.clone();
                    break;
                }
            }
        }
        println!("violation check={} index={} : {}", key, idx, fv.msg);
        println!("replay verification: reproduced={} (of up to {} fresh-process attempts per file)", reproduced > 0, tries);
        if reproduced > 0 {
            println!("VIOLATION property={} replay={}", pid, path.display());
            exit_code = 1;
        } else {
            // A failure that no fresh process can reproduce from its replay file is not reported as a
            // violation (one seed must be one repeatable execution); it is kept, counted and shown.
            println!("UNREPRODUCED property={} check={} replay={} (kept for inspection; counted in the evidence, not an alarm)", pid, key, path.display());
            unreproduced.push(format!("{} index={} {}", key, idx, path.display()));
            n_violations -= ris.len();
        }
    }

    let wall = t0.elapsed().as_secs_f64();
    {
        let n = crate::world::CLOCK_FAULTS.load(Ordering::Relaxed);
        if n > 0 {
            faults.insert("monorail_process_started_with_wrong_or_jumping_wall_clock".to_string(), n);
        }
    }
    let mut coverage = json!({
        "evaluations": evaluations,
        "distinct_nontrivial": distinct.len(),
        "rule": prop.rule(),
        "samples": samples,
        "scenarios_planned": n,
        "sub_executions": sub_evals,
        "runs_per_hour": if explore_s > 0.0 { (evaluations as f64 / explore_s * 3600.0) as u64 } else { 0 },
        "distinct_canonical_traces": trace_hashes.len(),
        "seeds": {"verif_seed": seed, "first_index": 0, "last_index": results.last().map(|r| r.0).unwrap_or(0), "scenario_seed": "mix(VERIF_SEED, property, index)"},
        "sim_time": {"controller_steps": steps, "real_pause_ms": sim_ms, "virtual_ms": probes.get("virtual_ms_covered").cloned().unwrap_or(0)},
        "faults_fired": faults,
        "probes": probes,
        "components": prop.components(),
        "determinism": {"pairs": det_pairs, "mismatches": det_mismatch, "detail": det_detail},
        "skipped": skipped,
        "advisories": advisories,
        "known_findings": known_lines,
        "unreproduced_failures": unreproduced,
        "wall_cap_hit": capped.load(Ordering::SeqCst),
        "workers": workers,
    });
    let extra = prop.extra_coverage(&results.iter().map(|r| (r.0, r.2.clone())).collect::<Vec<_>>());
    if let (Some(c), Some(e)) = (coverage.as_object_mut(), extra.as_object()) {
        for (k, v) in e {
            c.insert(k.clone(), v.clone());
        }
    }
    let ev = json!({
        "property_id": pid,
        "tier": tier.name(),
        "seed": seed,
        "level": prop.level(),
        "coverage": coverage,
        "assumptions": prop.assumptions(),
        "wall_s": wall,
        "violations": n_violations,
    });
    let evdir = verif_root().join("evidence");
    let _ = std::fs::create_dir_all(&evdir);
    let evpath = evdir.join(format!("{}.json", pid));
    if let Err(e) = std::fs::write(&evpath, serde_json::to_vec_pretty(&ev).unwrap()) {
        eprintln!("cannot write evidence: {}", e);
        return 2;
    }
    println!(
        "{}: evaluations={} distinct_nontrivial={} skipped={} violations={} wall={:.1}s determinism={}/{}",
        pid, evaluations, distinct.len(), skipped.values().sum::<u64>(), n_violations, wall, det_pairs - det_mismatch, det_pairs
    );
    if evaluations == 0 {
        eprintln!("harness error: nothing was evaluated");
        return 2;
    }
    crate::world::cleanup_scratch();
    if exit_code == 0 && PANICS.load(Ordering::SeqCst) > 0 {
        eprintln!("harness error: {} scenario(s) panicked", PANICS.load(Ordering::SeqCst));
        return 2;
    }
    exit_code
}

/// Re-execute a replay file in this (fresh) process. Exit 1 iff the same check fails again.
pub fn replay(prop: &dyn Property, path: &str) -> i32 {
    let doc: Value = match std::fs::read(path).ok().and_then(|b| serde_json::from_slice(&b).ok()) {
        Some(v) => v,
        None => {
            eprintln!("cannot read replay file {}", path);
            return 2;
        }
    };
    let key = doc["key"].as_str().unwrap_or("").to_string();
    let out = prop.execute(&doc["scenario"]);
    for l in &out.trace {
        println!("  {}", l);
    }
    crate::world::cleanup_scratch();
    if let Some(r) = out.skipped {
        println!("SKIPPED {}", r);
        return 2;
    }
    for v in &out.violations {
        println!("violation {} : {}", v.key(), v.msg);
    }
    if out.violations.iter().any(|v| v.key() == key) {
        println!("REPRODUCED check={}", key);
        println!("VIOLATION property={} replay={}", prop.id(), path);
        1
    } else if !out.violations.is_empty() {
        println!("DIFFERENT violation than recorded ({})", key);
        1
    } else {
        println!("NOT REPRODUCED check={}", key);
        0
    }
}
