pub fn hex(b: &[u8]) -> String {
    if b.is_empty() {
        return "-".into();
    }
    let mut s = String::with_capacity(b.len() * 2);
    const D: &[u8; 16] = b"0123456789abcdef";
    for x in b {
        s.push(D[(x >> 4) as usize] as char);
        s.push(D[(x & 15) as usize] as char);
    }
    s
}
pub fn unhex(s: &str) -> Vec<u8> {
    if s == "-" {
        return vec![];
    }
    let v = |c: u8| -> u8 {
        match c {
            b'0'..=b'9' => c - b'0',
            b'a'..=b'f' => c - b'a' + 10,
            b'A'..=b'F' => c - b'A' + 10,
            _ => 0,
        }
    };
    s.as_bytes()
        .chunks(2)
        .map(|p| (v(p[0]) << 4) | v(*p.get(1).unwrap_or(&b'0')))
        .collect()
}
pub fn unhex_str(s: &str) -> String {
    String::from_utf8_lossy(&unhex(s)).into_owned()
}
/// printable rendering of arbitrary bytes for traces
pub fn show(b: &[u8]) -> String {
    let mut s = String::new();
    for &c in b {
        match c {
            b'\n' => s.push_str("\\n"),
            b'\r' => s.push_str("\\r"),
            b'\t' => s.push_str("\\t"),
            b'\\' => s.push_str("\\\\"),
            0x20..=0x7e => s.push(c as char),
            _ => s.push_str(&format!("\\x{:02x}", c)),
        }
    }
    s
}
