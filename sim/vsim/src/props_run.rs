//! C04 C05 C06 C11 C16: properties decided on one controlled `run` of a generated world.
use crate::harness::{scenario_seed, Outcome, Property, Tier};
use crate::models;
use crate::prng::Rng;
use crate::rundrv::{RunOpts, RunScript, Strategy};
use crate::runworld::*;
use crate::world::{CmdFile, WorldSpec};
use serde_json::{json, Value};
use std::collections::{BTreeMap, BTreeSet};

fn components() -> Value {
    json!({
        "real": ["monorail binary built from /repo's working tree (all modules)", "git", "kernel process/pipe/unix-socket/TCP/tmpfs", "zstd"],
        "stub": ["every child command is vhelper, which only executes controller instructions"],
        "controlled": ["child start/output/exit order", "monorail's bookkeeping steps at cfg-gated points", "TOKIO_WORKER_THREADS"]
    })
}

fn shrink_run_scenario(sc: &RunScenario) -> Vec<RunScenario> {
    let mut out = vec![];
    // plain plan order
    if sc.script.strategy != Strategy::PlanOrder {
        let mut s = sc.clone();
        s.script.strategy = Strategy::PlanOrder;
        out.push(s);
    }
    // drop a target (and everything that mentions it)
    for i in 0..sc.spec.targets.len() {
        if sc.spec.targets.len() <= 1 {
            break;
        }
        let p = sc.spec.targets[i].path.clone();
        let mut s = sc.clone();
        s.spec.targets.remove(i);
        s.spec.targets.retain(|t| !models::inside_or_eq(&t.path, &p));
        let gone: Vec<String> = sc.spec.targets.iter().filter(|t| models::inside_or_eq(&t.path, &p)).map(|t| t.path.clone()).collect();
        s.spec.cmd_files.retain(|c| !gone.contains(&c.target));
        for t in s.spec.targets.iter_mut() {
            t.uses.retain(|u| !gone.iter().any(|g| models::inside_or_eq(u, g)));
        }
        s.script.behav.retain(|b| !gone.contains(&b.target));
        s.script.opts.targets.retain(|t| !gone.contains(t));
        if let Mode::Changed { edits } = &mut s.mode {
            edits.retain(|e| !gone.iter().any(|g| models::inside_or_eq(e, g)));
        }
        if s.mode == Mode::Named && s.script.opts.targets.is_empty() {
            continue;
        }
        if s.spec.targets.is_empty() {
            continue;
        }
        out.push(s);
    }
    // drop a command
    if sc.script.opts.commands.len() + sc.script.opts.sequences.len() > 1 {
        for i in 0..sc.script.opts.commands.len() {
            let mut s = sc.clone();
            s.script.opts.commands.remove(i);
            out.push(s);
        }
        if !sc.script.opts.sequences.is_empty() && !sc.script.opts.commands.is_empty() {
            let mut s = sc.clone();
            s.script.opts.sequences.clear();
            out.push(s);
        }
    }
    // drop uses edges
    for i in 0..sc.spec.targets.len() {
        if !sc.spec.targets[i].uses.is_empty() {
            let mut s = sc.clone();
            s.spec.targets[i].uses.clear();
            out.push(s);
        }
    }
    // drop outputs
    if sc.script.behav.iter().any(|b| !b.outs.is_empty()) {
        let mut s = sc.clone();
        for b in s.script.behav.iter_mut() {
            b.outs.clear();
        }
        out.push(s);
    }
    // drop knobs
    if sc.script.until_at.is_some() {
        let mut s = sc.clone();
        s.script.until_at = None;
        out.push(s);
    }
    out
}

fn to_val(sc: &RunScenario) -> Value {
    serde_json::to_value(sc).unwrap()
}
fn from_val(v: &Value) -> Result<RunScenario, String> {
    serde_json::from_value(v.clone()).map_err(|e| format!("bad scenario: {}", e))
}

/// One scenario in `one_in`: the invocations of the world run under wrong and jumping wall clocks (own generator,
/// so that the scenarios of existing seeds stay what they were).
pub fn clockify(spec: &mut WorldSpec, seed: u64, tag: &str, idx: usize, one_in: u32) {
    let mut crng = Rng::new(scenario_seed(seed, tag, idx));
    if crng.chance(1, one_in) {
        spec.clock_plan = crate::world::gen_clock_plan(&mut crng);
    }
}

/// One world in three that has sequences names a sequence like one of its own member commands (`build: [lint, build]`):
/// sequences and commands are separate name spaces, `-s build` runs the members of the sequence, in order. Own
/// generator over the finished scenario.
pub fn seq_named_like_command(sc: &mut RunScenario, seed: u64, tag: &str, idx: usize) {
    let mut rng = Rng::new(scenario_seed(seed, tag, idx));
    if sc.spec.sequences.is_empty() || !rng.chance(1, 3) {
        return;
    }
    let k = rng.below(sc.spec.sequences.len());
    let members = sc.spec.sequences[k].1.clone();
    if members.is_empty() {
        return;
    }
    let new = members[rng.below(members.len())].clone();
    if sc.spec.sequences.iter().any(|(n, _)| *n == new) {
        return;
    }
    let old = std::mem::replace(&mut sc.spec.sequences[k].0, new.clone());
    for s in sc.script.opts.sequences.iter_mut() {
        if *s == old {
            *s = new.clone();
        }
    }
}

fn gen_knobs(rng: &mut Rng, script: &mut RunScript) {
    script.rand_seed = Some(rng.next_u64() % 1_000_000);
    script.workers = Some(*rng.pick(&[1u32, 2, 4, 16]));
    script.flush_ms = Some(*rng.pick(&[5u64, 20, 100, 500]));
}

// ---------------------------------------------------------------------------------------------
// C04

pub struct C04;

pub fn check_c04(ctx: &RunCtx, out: &mut Outcome) {
    let tr = &ctx.trace;
    // the ordering invariants are judged on whatever happened, also when the run later hung or aborted
    let doc = tr.result_json();
    let rg = match &doc {
        Some(d) => result_groups(d),
        None => {
            // no document: the targets that took part are those monorail asked to spawn
            ctx.commands
                .iter()
                .map(|c| {
                    let mut m = std::collections::BTreeMap::new();
                    for (_, sc, st) in tr.spawn_reqs.iter().filter(|r| r.1 == *c) {
                        let _ = sc;
                        m.insert(st.clone(), PairResult { status: String::new(), code: None });
                    }
                    (c.clone(), vec![m])
                })
                .collect()
        }
    };
    // (c) documented command order
    let got: Vec<String> = rg.iter().map(|r| r.0.clone()).collect();
    if doc.is_some() && got != ctx.commands {
        out.violate("command_order", "results_order", format!("results[] lists commands {:?}, documented order is {:?}", got, ctx.commands));
    }
    let cmd_index = |c: &str, after: usize| -> Option<usize> { ctx.commands.iter().enumerate().position(|(i, x)| i >= after && x == c) };
    // walk spawn requests in time order, tracking the current command position
    let deps = models::direct_deps(&ctx.sc.spec);
    let mut cur_cmd = 0usize;
    for (seq, c, t) in &tr.spawn_reqs {
        let ci = match cmd_index(c, cur_cmd) {
            Some(i) => i,
            None => {
                out.violate("command_order", "spawn_order", format!("executable of command '{}' requested after command #{} ('{}') had begun; documented order {:?}", c, cur_cmd, ctx.commands.get(cur_cmd).cloned().unwrap_or_default(), ctx.commands));
                continue;
            }
        };
        cur_cmd = ci;
        // (b) barrier between commands: everything of earlier commands has been told to exit
        for h in &tr.helpers {
            let hi = ctx.commands.iter().position(|x| *x == h.command).unwrap_or(0);
            // same command name may occur twice in the list; only judge strictly earlier positions
            if hi < ci && ctx.commands[..ci].contains(&h.command) && h.command != *c && h.start_seq < *seq {
                if h.exit_instr_seq.map(|e| e > *seq).unwrap_or(true) {
                    out.violate("command_barrier", "earlier_command_running", format!("'{}' for '{}' was requested (event {}) while '{}' for '{}' of an earlier command was still running", c, t, seq, h.command, h.target));
                }
            }
        }
        // (a) dependencies of T that take part in this command's run must have been told to exit
        let run_targets: BTreeSet<String> = rg.get(ci).map(|r| r.1.iter().flat_map(|g| g.keys().cloned()).collect()).unwrap_or_default();
        for u in models::trans_deps(&deps, t) {
            if !run_targets.contains(&u) {
                continue;
            }
            if definition(&ctx.sc.spec, c, &u) != Def::Defined {
                continue;
            }
            let hs: Vec<_> = tr.helpers.iter().filter(|h| h.command == *c && h.target == u).collect();
            let ok = hs.iter().any(|h| h.exit_instr_seq.map(|e| e < *seq).unwrap_or(false));
            if !ok {
                let state = if hs.is_empty() { "had not been started" } else { "was still running" };
                out.violate("dep_before_dependent", "dependency_not_finished", format!("'{}' for '{}' was requested (event {}) while its dependency '{}' {}", c, t, seq, u, state));
            }
        }
    }
    if let Some(h) = &tr.hang {
        out.violate("progress", "hang", format!("bounded progress failed: {}", h));
        return;
    }
    if doc.is_none() {
        out.violate("progress", "no_result", format!("run produced no result document: exit={:?} stderr={}", tr.code(), tr.stderr_str()));
        return;
    }
    if tr.code() != Some(0) {
        out.violate("progress", "exit_status", format!("all children exited 0 but run exited {:?}: {}", tr.code(), tr.stderr_str()));
    }
    // non-triviality: >= 2 groups with a dependency edge across them and >= 1 non-plan decision
    let mut cross = false;
    for (_, gs) in &rg {
        for (j, g) in gs.iter().enumerate() {
            for t in g.keys() {
                let td = models::trans_deps(&deps, t);
                if gs[..j].iter().any(|e| e.keys().any(|u| td.contains(u))) {
                    cross = true;
                }
            }
        }
    }
    out.nontrivial = cross && tr.nonplan_decisions > 0;
}

fn gen_c04(seed: u64, idx: usize, tier: Tier) -> RunScenario {
    let mut rng = Rng::new(scenario_seed(seed, "C04", idx));
    // one world in twenty-five: a layer of 66-90 independent targets (with a dependent on top) under three or four
    // commands: a plan of 250-370 (command, target) entries
    let large = rng.chance(1, 25);
    let p = GenParams {
        max_t: if large { 3 } else if tier == Tier::Thorough && rng.chance(1, 5) { 24 } else { 10 },
        wide_group: if large { Some(rng.range(66, 90)) } else { None },
        max_cmds: if large { 4 } else { 3 },
        min_cmds: if large { 3 } else { 1 },
        sequences_pct: if large { 0 } else { 30 },
        ..Default::default()
    };
    let mut spec = gen_world(&mut rng, &p);
    // one world in eight has a chain with a gap: gap2 -> gap1 -> gap0 where gap1 names only gap0/file.txt;
    // a change to another file of gap0 plus a change to gap2 selects both ends and not the middle, and the
    // ends must still run in dependency order
    let gap = rng.chance(1, 8);
    if gap {
        let cmds = crate::runworld::world_commands(&spec);
        for (name, uses) in [("gap0", vec![]), ("gap1", vec!["gap0/file.txt".to_string()]), ("gap2", vec!["gap1".to_string()])] {
            for c in &cmds {
                spec.cmd_files.push(crate::world::CmdFile { target: name.into(), command: c.clone(), rel: WorldSpec::default_cmd_rel(name, c), exec: true, broken: false });
            }
            spec.targets.push(crate::world::TargetSpec { path: name.into(), uses, ..Default::default() });
        }
    }
    let mut opts = gen_opts(&mut rng, &spec);
    // one run in ten that uses sequences names a command of a sequence again in --commands: the command then
    // occurs twice in the documented order and runs twice (every child exits 0 here, so the second occurrence
    // is told apart from the first by its position alone)
    if !opts.sequences.is_empty() && rng.chance(1, 10) {
        let used: Vec<String> = spec.sequences.iter().filter(|s| opts.sequences.contains(&s.0)).flat_map(|s| s.1.iter().cloned()).collect();
        if !used.is_empty() {
            opts.commands.push(used[rng.below(used.len())].clone());
        }
    }
    if large {
        let mut cs = crate::runworld::world_commands(&spec);
        rng.shuffle(&mut cs);
        opts = RunOpts { commands: cs, ..Default::default() };
    }
    let mode = if large {
        Mode::All
    } else if gap {
        let mut edits = vec!["gap0/other.txt".to_string(), "gap2/file.txt".to_string()];
        for t in &spec.targets {
            if !t.path.starts_with("gap") && rng.chance(40, 100) {
                edits.push(format!("{}/other.txt", t.path));
            }
        }
        Mode::Changed { edits }
    } else {
        gen_mode(&mut rng, &spec, &mut opts, false)
    };
    let max_outs = if rng.chance(1, 3) { 0 } else { 3 };
    let behav = behav_exit0_all(&spec, &mut rng, max_outs);
    let mut behav = behav;
    // now and then one child is much slower than everything else in real time (timers inside
    // monorail are on the real clock here): preferably one that others depend on
    let slow = if tier == Tier::Thorough { rng.chance(1, 30) } else { rng.chance(1, 30) };
    if slow && !behav.is_empty() {
        let prio = deps_last_prio(&spec);
        let best = prio.iter().max_by_key(|p| p.1).map(|p| p.0.clone()).unwrap_or_default();
        let cands: Vec<usize> = (0..behav.len()).filter(|&i| behav[i].target == best).collect();
        let i = if cands.is_empty() { rng.below(behav.len()) } else { cands[rng.below(cands.len())] };
        behav[i].exit_pause_ms = if tier == Tier::Thorough { *rng.pick(&[1200u32, 6000, 6000, 12000, 31000]) } else { *rng.pick(&[1200u32, 6000, 6000]) };
        if rng.chance(1, 2) {
            // ... and it has closed both its output streams long before (`exec >build.log 2>&1`)
            behav[i].outs.push(crate::rundrv::OutStep { fd: 1, hex: "-".into(), pause_ms: 0, close: true });
            behav[i].outs.push(crate::rundrv::OutStep { fd: 2, hex: "-".into(), pause_ms: 0, close: true });
        }
    }
    let mut script = RunScript::simple(opts);
    script.behav = behav;
    script.strategy = gen_strategy(&mut rng);
    script.sched_seed = rng.next_u64();
    script.prio = deps_last_prio(&spec);
    gen_knobs(&mut rng, &mut script);
    RunScenario { spec, mode, script, hang_ms: default_hang_ms() }
}

fn exec_with(v: &Value, f: impl Fn(&RunCtx, &mut Outcome)) -> Outcome {
    let sc = match from_val(v) {
        Ok(s) => s,
        Err(e) => return Outcome::skip(&e),
    };
    let listener = v["with_listener"] == true;
    // an earlier run of the same commands in which the named members failed (C16: the history must not change
    // how a group is started)
    let prior: Option<RunScript> = v["prior_failed"].as_array().filter(|a| !a.is_empty()).map(|a| {
        let failed: Vec<String> = a.iter().filter_map(|x| x.as_str().map(String::from)).collect();
        let mut p = sc.script.clone();
        p.env_actions.clear();
        p.kill = None;
        p.strategy = Strategy::PlanOrder;
        for b in p.behav.iter_mut() {
            b.early_exit = false;
            b.outs.truncate(1);
            b.code = if failed.contains(&b.target) { 1 } else { 0 };
        }
        p
    });
    let prior = match prior {
        Some(p) => Some(p),
        None => v["prior_only"].as_array().filter(|a| !a.is_empty()).map(|a| {
            let mut p = sc.script.clone();
            p.env_actions.clear();
            p.kill = None;
            p.strategy = Strategy::PlanOrder;
            p.opts.targets = a.iter().filter_map(|x| x.as_str().map(String::from)).collect();
            p.opts.deps = false;
            for b in p.behav.iter_mut() {
                b.early_exit = false;
                b.outs.truncate(1);
                b.code = 0;
            }
            p
        }),
    };
    match crate::runworld::execute_run_with(&sc, None, listener, prior.as_ref()) {
        Prepared::Skip(r) => Outcome::skip(&r),
        Prepared::Ctx(ctx) => {
            let mut out = Outcome::default();
            base_trace(&ctx, &mut out);
            if listener {
                out.fault("log_tail_listener_attached_to_the_run", 1);
            }
            if prior.is_some() {
                out.fault(if v["prior_only"].is_array() { "earlier_run_of_a_single_member_in_the_history" } else { "earlier_run_with_failed_members_in_the_history" }, 1);
            }
            if ctx.trace.env_actions_done > 0 {
                out.fault("command_file_made_executable_while_the_run_was_in_progress", ctx.trace.env_actions_done as u64);
            }
            f(&ctx, &mut out);
            let groups: Vec<usize> = ctx.trace.result_json().map(|d| result_groups(&d).iter().map(|r| r.1.len()).collect()).unwrap_or_default();
            out.signature = format!("{:?}|{:?}|{:?}|{}", ctx.sc.spec.targets.iter().map(|t| (&t.path, &t.uses)).collect::<Vec<_>>(), groups, ctx.sc.script.strategy, ctx.trace.log.len());
            out
        }
    }
}

impl Property for C04 {
    fn id(&self) -> &'static str {
        "C04"
    }
    fn count(&self, tier: Tier) -> usize {
        match tier {
            Tier::Quick => 600,
            Tier::Thorough => 12000,
        }
    }
    fn generate(&self, seed: u64, idx: usize, tier: Tier) -> Value {
        let mut sc = gen_c04(seed, idx, tier);
        clockify(&mut sc.spec, seed, "C04-clock", idx, 6);
        seq_named_like_command(&mut sc, seed, "C04-seqname", idx);
        {
            let mut xrng = Rng::new(scenario_seed(seed, "C04-scripts", idx));
            if xrng.chance(1, 8) {
                sc.spec.script_wrappers = xrng.range(1, 4) as u8;
            }
        }
        let mut v = to_val(&sc);
        // one run in four has a `log tail` listener attached: ordering must not depend on who is listening
        let mut rng = Rng::new(scenario_seed(seed, "C04l", idx));
        v["with_listener"] = json!(rng.chance(1, 4));
        v
    }
    fn execute(&self, v: &Value) -> Outcome {
        exec_with(v, check_c04)
    }
    fn shrink(&self, v: &Value) -> Vec<Value> {
        from_val(v)
            .map(|s| {
                let mut c: Vec<Value> = vec![];
                if v["with_listener"] == true {
                    let mut x = v.clone();
                    x["with_listener"] = json!(false);
                    c.push(x);
                }
                c.extend(shrink_run_scenario(&s).iter().map(|c| {
                    let mut x = to_val(c);
                    x["with_listener"] = v["with_listener"].clone();
                    x
                }));
                c
            })
            .unwrap_or_default()
    }
    fn rule(&self) -> String {
        "seeded worlds (2-10 targets, thorough up to 24; nesting, uses, 1-3 commands, sequences; selection all/changed/-t --deps) x seeded schedule strategy (plan order, reverse, dependencies-last, uniform, hold-monorail, straggler); every child exits 0. Invariants on controller event sequence numbers: dependency told to exit before dependent's spawn is requested; command barrier; documented command order; bounded progress. Rounds 11-12: one world in three that has sequences names a sequence like one of its member commands; one run in six under a wrong or jumping wall clock. Non-trivial = the run has >= 2 groups with an R-dep edge across them and >= 1 scheduling decision that differs from plan order; distinct = hash of (targets+uses, group shape, strategy, trace length)".into()
    }
    fn components(&self) -> Value {
        components()
    }
    fn assumptions(&self) -> Vec<String> {
        vec![
            "a child cannot produce output or exit before the controller instructs it (vhelper protocol)".into(),
            "the dependency relation used as specification is R-dep (C10's statement), not monorail's own edge set".into(),
            "worlds the pinned tree rejects as cyclic although acyclic (C03 territory) are skipped and counted".into(),
            "thread scheduling inside monorail between two points is the kernel's; properties are judged on the controller-visible event order".into(),
        ]
    }
}

// ---------------------------------------------------------------------------------------------
// C16

pub struct C16;

fn gen_c16(seed: u64, idx: usize, tier: Tier) -> RunScenario {
    let mut rng = Rng::new(scenario_seed(seed, "C16", idx));
    let maxw = if tier == Tier::Thorough { 48 } else { 16 };
    let shape = rng.below(12);
    // mostly 2..maxw; one in twelve a group of 33-48 members; one in twelve a 24-wide group late in a long plan
    // one in twelve: 84-90 members under a descriptor limit of 384 or 512 (the unchanged tree needs 3.4-5.4 per member
    // depending on the shape of the plan; a tree that gives up loudly under the limit is tolerated, one that hangs is not)
    let wide = match shape {
        0 => rng.range(33, 48),
        1 => 24,
        2 => rng.range(84, 90),
        _ => rng.range(2, maxw),
    };
    // position of the wide layer: first (independent), middle (depends on a base, something depends on it), last
    let pos = rng.below(3);
    let mut targets = vec![];
    let mut base_uses = vec![];
    if pos >= 1 {
        targets.push(crate::world::TargetSpec { path: "base".into(), ..Default::default() });
        base_uses.push("base".to_string());
    }
    // one scenario in ten: two members of the wide layer have names that differ only in letter case
    let case_pair = wide >= 4 && rng.chance(1, 10);
    for i in 0..wide {
        let path = if case_pair && i == 1 {
            "wcase".to_string()
        } else if case_pair && i == 2 {
            "wCASE".to_string()
        } else {
            format!("w{:02}", i)
        };
        targets.push(crate::world::TargetSpec { path, uses: base_uses.clone(), ..Default::default() });
    }
    if pos == 1 {
        targets.push(crate::world::TargetSpec { path: "top".into(), uses: vec!["w00".into()], ..Default::default() });
    }
    let cmds: Vec<&str> = if shape == 1 { vec!["fmt", "lint", "test", "build"] } else if rng.chance(1, 2) { vec!["build"] } else { vec!["lint", "build"] };
    // one scenario in eight: the members of the wide layer all name one shared script in their `definitions`
    // (same executable, same arguments, different working directories)
    let shared_script = shape != 2 && rng.chance(1, 8);
    let mut cmd_files = vec![];
    for t in targets.iter_mut() {
        for c in &cmds {
            if shared_script && t.path.starts_with('w') {
                let rel = format!("tools/shared-{}.sh", c);
                t.defs.push((c.to_string(), rel.clone()));
                cmd_files.push(CmdFile { target: t.path.clone(), command: c.to_string(), rel, exec: true, broken: false });
            } else {
                cmd_files.push(CmdFile { target: t.path.clone(), command: c.to_string(), rel: WorldSpec::default_cmd_rel(&t.path, c), exec: true, broken: false });
            }
        }
    }
    // one scenario in eight: one member of the wide layer (not the first) has a command file without the
    // execute bit for one command: the members that are executable still rendezvous and complete, the run
    // reports the failure
    if wide >= 3 && rng.chance(1, 8) && !shared_script {
        let k = rng.range(1, wide - 1);
        let c = cmds[rng.below(cmds.len())];
        for cf in cmd_files.iter_mut() {
            if cf.target == format!("w{:02}", k) && cf.command == c {
                cf.exec = false;
            }
        }
    }
    // one scenario in eight: every member gets an argument list larger than a pipe buffer (64 KiB)
    let mut files = vec![];
    if rng.chance(1, 8) {
        let args: Vec<String> = (0..2600).map(|i| format!("--option-number-{:05}=value", i)).collect();
        let body = serde_json::json!({ cmds[cmds.len() - 1]: args }).to_string();
        for t in &targets {
            files.push((format!("{}/monorail/argmap/base.json", t.path), body.clone()));
        }
    }
    let spec = WorldSpec { targets, cmd_files, files, sequences: vec![], max_retained_runs: 2, gitignore: vec![], git: true, lock_host: None, default_ports: 0, omit_max_retained: false, sha256_repo: false, clock_plan: vec![], script_wrappers: 0 };
    let opts = RunOpts { commands: cmds.iter().map(|s| s.to_string()).collect(), ..Default::default() };
    let mut script = RunScript::simple(opts);
    // one scenario in four: a few members of the wide layer exit the moment they have started, while monorail is
    // still starting the others (starting a member must not wait for any other member to FINISH either);
    // one in four: every member writes more than a pipe buffer before it is done
    let early = rng.chance(1, 4);
    let chatty = rng.chance(1, 4);
    for cf in &spec.cmd_files {
        let mut b = crate::rundrv::Behav { command: cf.command.clone(), target: cf.target.clone(), outs: vec![], code: 0, exit_pause_ms: 0, early_exit: false, hold_pipes_ms: 0, outs_again: vec![] };
        if early && cf.target.starts_with('w') && rng.chance(1, 6) {
            b.early_exit = true;
        }
        if chatty && !b.early_exit {
            let mut v = Vec::new();
            let total = 70 * 1024 + rng.below(40 * 1024);
            let mut n = 0;
            while v.len() < total {
                n += 1;
                v.extend_from_slice(format!("{}@{} line {} {}\n", cf.command, cf.target, n, "x".repeat(80)).as_bytes());
            }
            b.outs.push(crate::rundrv::OutStep { fd: if rng.chance(1, 2) { 1 } else { 2 }, hex: crate::proto::hex(&v), pause_ms: 0, close: false });
        }
        script.behav.push(b);
    }
    script.strategy = *rng.pick(&[Strategy::PlanOrder, Strategy::Reverse, Strategy::Uniform, Strategy::Straggler]);
    script.sched_seed = rng.next_u64();
    script.workers = Some(*rng.pick(&[1u32, 1, 2, 4, 16]));
    script.flush_ms = Some(20);
    script.rand_seed = Some(rng.next_u64() % 1_000_000);
    if shape == 2 {
        script.nofile = Some(*rng.pick(&[384u64, 512]));
    }
    RunScenario { spec, mode: Mode::All, script, hang_ms: default_hang_ms() }
}

pub fn check_c16(ctx: &RunCtx, out: &mut Outcome) {
    let tr = &ctx.trace;
    // group sizes as monorail reports them
    let doc = tr.result_json();
    let sizes: Vec<usize> = doc.as_ref().map(|d| result_groups(d).iter().flat_map(|r| r.1.iter().map(|g| g.len()).collect::<Vec<_>>()).collect()).unwrap_or_default();
    if let Some(h) = &tr.hang {
        let started: Vec<String> = tr.helpers.iter().filter(|x| x.exit_instr_seq.is_none()).map(|x| format!("{}:{}", x.command, x.target)).collect();
        out.violate("rendezvous", "member_not_started", format!("the controller releases no member before all have started, and the group never completed: {} (members parked at that moment: {:?})", h, started));
        return;
    }
    let nonexec = ctx.sc.spec.cmd_files.iter().any(|c| !c.exec);
    if nonexec {
        out.fault("member_without_execute_permission_in_a_rendezvous_group", 1);
    }
    if tr.code() != Some(if nonexec { 1 } else { 0 }) {
        out.violate("rendezvous", "exit_status", format!("group of rendezvousing members did not complete: exit {:?} {}", tr.code(), tr.stderr_str()));
        // under the injected descriptor limit the run may give up (loudly on stderr, or member by member in its
        // document); it may not hang (judged above)
        if ctx.sc.script.nofile.is_some() {
            out.violations.clear();
            out.skipped = Some("descriptor_limit_hit_loudly(tolerated under the injected limit)".into());
            return;
        }
    }
    // every member of every group started before the first release of that group (true by construction; asserted)
    let mut by_group: BTreeMap<usize, Vec<&crate::rundrv::HelperRec>> = BTreeMap::new();
    for h in &tr.helpers {
        by_group.entry(h.group).or_default().push(h);
    }
    let mut maxg = 0;
    for (_, hs) in &by_group {
        // members scripted to exit the moment they start are the exception the scenario asks for
        let is_early = |h: &&crate::rundrv::HelperRec| ctx.sc.script.behav_for(&h.command, &h.target).map(|b| b.early_exit).unwrap_or(false);
        let last_start = hs.iter().map(|h| h.start_seq).max().unwrap_or(0);
        let first_exit = hs.iter().filter(|h| !is_early(h)).filter_map(|h| h.exit_instr_seq).min().unwrap_or(u64::MAX);
        if first_exit < last_start {
            out.violate("rendezvous", "harness", "harness released a member before all had started".into());
        }
        maxg = maxg.max(hs.len());
    }
    // every member that defines the command was really started (a member whose process never ran cannot have
    // been concurrent with anything), whatever the document says about it
    if !nonexec && tr.code() == Some(0) {
        // these worlds run every configured target (no checkpoint, no -t): a member that silently dropped out of
        // the plan did not take part in the rendezvous either
        for c in &ctx.commands {
            for t in &ctx.sc.spec.targets {
                if definition(&ctx.sc.spec, c, &t.path) == Def::Defined && !tr.helpers.iter().any(|h| h.command == *c && h.target == t.path) {
                    out.violate("rendezvous", "member_never_started", format!("'{}' for '{}' is defined, the run covers every target and succeeded, but no process was ever started for it", c, t.path));
                    return;
                }
            }
        }
        if let Some(d) = &doc {
            for (c, gs) in result_groups(d) {
                for g in gs {
                    for t in g.keys() {
                        if definition(&ctx.sc.spec, &c, t) == Def::Defined && !tr.helpers.iter().any(|h| h.command == c && h.target == *t) {
                            out.violate("rendezvous", "member_never_started", format!("'{}' for '{}' is reported {:?} but no process was ever started for it (group of {})", c, t, g.get(t).map(|r| r.status.clone()), g.len()));
                            return;
                        }
                    }
                }
            }
        }
    }
    // the wide layer must really have been one group (else the scenario says nothing about concurrency)
    let wide = ctx.sc.spec.targets.iter().filter(|t| t.path.starts_with('w')).count();
    if !sizes.contains(&wide) {
        out.advisories.push(format!("wide layer of {} was reported in groups {:?}", wide, sizes));
    }
    out.nontrivial = maxg >= 3;
    out.probe("max_group_size_parked_together", maxg as u64);
}

impl Property for C16 {
    fn id(&self) -> &'static str {
        "C16"
    }
    fn count(&self, tier: Tier) -> usize {
        match tier {
            Tier::Quick => 200,
            Tier::Thorough => 3000,
        }
    }
    fn generate(&self, seed: u64, idx: usize, tier: Tier) -> Value {
        let mut sc16 = gen_c16(seed, idx, tier);
        // one scenario in four runs with a `log tail` listener attached (members then also stream to it)
        let mut rng = Rng::new(scenario_seed(seed, "C16l", idx));
        let with_listener = rng.chance(1, 4);
        {
            // own generator: one world in five has every third command file as a shell script (four spellings of the
            // interpreter line) instead of a binary; half of the listeners die while the members are being started
            // (at the 1st-3rd spawn of the run): a group must start completely whoever stops listening
            let mut xrng = Rng::new(scenario_seed(seed, "C16-scripts", idx));
            if xrng.chance(1, 5) {
                sc16.spec.script_wrappers = xrng.range(1, 4) as u8;
            }
            // one scenario in six: one member in the middle of the wide layer does not define one of the commands
            // (not an error without --fail-on-undefined): the members before and after it still rendezvous
            let ws: Vec<String> = sc16.spec.targets.iter().filter(|t| t.path.starts_with('w')).map(|t| t.path.clone()).collect();
            let all_plain = sc16.spec.cmd_files.iter().all(|c| c.exec && !c.broken) && {
                let mut rels: Vec<&String> = sc16.spec.cmd_files.iter().map(|c| &c.rel).collect();
                rels.sort();
                rels.windows(2).all(|w| w[0] != w[1])
            };
            if ws.len() >= 3 && all_plain && !sc16.script.opts.fail_on_undefined && xrng.chance(1, 6) {
                let t = ws[xrng.range(1, ws.len() - 2)].clone();
                let cs: Vec<String> = sc16.spec.cmd_files.iter().filter(|c| c.target == t).map(|c| c.command.clone()).collect();
                if !cs.is_empty() {
                    let c = cs[xrng.below(cs.len())].clone();
                    sc16.spec.cmd_files.retain(|f| !(f.target == t && f.command == c));
                    sc16.script.behav.retain(|b| !(b.target == t && b.command == c));
                }
            }
            // one scenario in eight is started the way a recipe of `make -j2` would start it
            if xrng.chance(1, 8) {
                sc16.script.make_jobserver = true;
            }
            if with_listener && xrng.chance(1, 2) {
                sc16.script.lfaults.push(crate::rundrv::LFault { at: crate::rundrv::LTrigger::AtPoint { name: "run.spawn".into(), nth: xrng.range(1, 3) }, action: crate::rundrv::LAction::Kill });
            }
        }
        let mut v = to_val(&sc16);
        v["with_listener"] = json!(with_listener);
        // one scenario in eight has a history: an earlier run of the same commands in which a few (not all) members
        // of the wide layer failed
        if v["with_listener"] != true && rng.chance(1, 8) {
            if let Ok(sc) = from_val(&v) {
                let ws: Vec<String> = sc.spec.targets.iter().filter(|t| t.path.starts_with('w')).map(|t| t.path.clone()).collect();
                if ws.len() >= 3 && sc.script.nofile.is_none() && sc.spec.cmd_files.iter().all(|c| c.exec) {
                    let k = rng.range(1, (ws.len() / 2).max(1));
                    let mut f = ws.clone();
                    rng.shuffle(&mut f);
                    f.truncate(k);
                    v["prior_failed"] = json!(f);
                }
            }
        } else if v["with_listener"] != true && rng.chance(1, 8) {
            // or: the latest recorded run covered a single member of the wide layer only (`run -c X -t w03`)
            if let Ok(sc) = from_val(&v) {
                let ws: Vec<String> = sc.spec.targets.iter().filter(|t| t.path.starts_with('w')).map(|t| t.path.clone()).collect();
                if ws.len() >= 3 && sc.script.nofile.is_none() && sc.spec.cmd_files.iter().all(|c| c.exec) {
                    v["prior_only"] = json!([ws[rng.below(ws.len())].clone()]);
                }
            }
        }
        v
    }
    fn execute(&self, v: &Value) -> Outcome {
        let mut o = if v["with_listener"] == true {
            match from_val(v) {
                Err(e) => Outcome::skip(&e),
                Ok(sc) => {
                    let cfg = crate::props_listen::ListenerCfg { stdout: true, stderr: true, targets: vec![], commands: vec![] };
                    let mut slot = None;
                    match crate::props_listen::execute_run_l(&sc, Some(&cfg), &mut slot) {
                        Err(r) => Outcome::skip(&r),
                        Ok((ctx, _)) => {
                            let mut out = Outcome::default();
                            base_trace(&ctx, &mut out);
                            out.fault("listener_attached_to_a_rendezvous_group", 1);
                            check_c16(&ctx, &mut out);
                            out
                        }
                    }
                }
            }
        } else {
            exec_with(v, check_c16)
        };
        if let Ok(sc) = from_val(v) {
            let wide = sc.spec.targets.iter().filter(|t| t.path.starts_with('w')).count();
            o.signature = format!("wide={} n={} cmds={:?} strat={:?} workers={:?} l={} bigargs={}", wide, sc.spec.targets.len(), sc.script.opts.commands, sc.script.strategy, sc.script.workers, v["with_listener"], !sc.spec.files.is_empty());
        }
        o
    }
    fn shrink(&self, v: &Value) -> Vec<Value> {
        from_val(v).map(|s| shrink_run_scenario(&s).iter().map(to_val).collect()).unwrap_or_default()
    }
    fn rule(&self) -> String {
        "a layer of 2-16 (thorough 2-48) mutually independent targets placed first / in the middle / last in the plan, under a first or second command, TOKIO_WORKER_THREADS in {1,2,4,16}; the controller is the barrier: no member is released before every member of the group has started, so a tree that waits for one member before starting the next deadlocks and is reported after the hang bound. Non-trivial = a group of >= 3 members was parked together; distinct = (width, position, commands, strategy, workers)".into()
    }
    fn components(&self) -> Value {
        components()
    }
    fn assumptions(&self) -> Vec<String> {
        vec![
            "hang bound (VERIF_HANG_MS, default 10 s) is three orders of magnitude above the observed latency of a spawn".into(),
            "members rendezvous through the controller, which is equivalent to each member waiting for the start record of every other".into(),
        ]
    }
}

// ---------------------------------------------------------------------------------------------
// C05

pub struct C05;

fn gen_c05(seed: u64, idx: usize, _tier: Tier) -> RunScenario {
    let mut sc = gen_c05_base(seed, idx);
    let mut rng = Rng::new(scenario_seed(seed, "C05x", idx));
    match rng.below(30) {
        0 => {
            // an explicit but blank target list names no target: nothing may run
            sc.mode = Mode::Named;
            sc.script.opts.targets = vec![String::new()];
            sc.script.opts.deps = rng.chance(1, 2);
        }
        1 => {
            // one command file has the x bit but cannot be executed (its interpreter does not exist)
            let cands: Vec<usize> = (0..sc.spec.cmd_files.len()).filter(|&i| sc.spec.cmd_files[i].exec && !sc.spec.cmd_files[i].command.ends_with("__decoy")).collect();
            if !cands.is_empty() {
                let i = cands[rng.below(cands.len())];
                sc.spec.cmd_files[i].broken = true;
            }
        }
        2 | 3 | 4 => {
            // a command file of the second command is a plain, non-executable file when the run starts and
            // becomes executable while the first command is still being processed (an earlier step of the
            // run, or somebody else, fixed its mode): at its turn it is defined and executable, so it runs
            late_exec(&mut rng, &mut sc);
        }
        5 | 6 | 7 => {
            // an explicit list names one target twice: verbatim, with a trailing slash (tab completion) or with a
            // leading `./`. A tool may refuse a spelling it does not know; it may not run the target twice.
            if sc.mode == Mode::Named && !sc.script.opts.targets.is_empty() && !sc.script.opts.targets.iter().all(|t| t.trim().is_empty()) {
                let t = sc.script.opts.targets[rng.below(sc.script.opts.targets.len())].clone();
                let again = match rng.below(3) {
                    0 => t.clone(),
                    1 => format!("{}/", t),
                    _ => format!("./{}", t),
                };
                sc.script.opts.targets.push(again);
            }
        }
        8 => {
            // a layer of 130-150 independent targets under one command (wider than any batch size)
            let mut rng2 = Rng::new(scenario_seed(seed, "C05w", idx));
            let p = GenParams { max_t: 3, wide_group: Some(rng2.range(130, 150)), max_cmds: 1, sequences_pct: 0, ..Default::default() };
            let spec = gen_world(&mut rng2, &p);
            let opts = gen_opts(&mut rng2, &spec);
            let behav = behav_exit0_all(&spec, &mut rng2, 0);
            let mut script = RunScript::simple(opts);
            script.behav = behav;
            script.strategy = Strategy::PlanOrder;
            script.sched_seed = rng2.next_u64();
            gen_knobs(&mut rng2, &mut script);
            sc = RunScenario { spec, mode: Mode::All, script, hang_ms: default_hang_ms() };
        }
        _ => {}
    }
    sc
}

fn gen_c05_base(seed: u64, idx: usize) -> RunScenario {
    let mut rng = Rng::new(scenario_seed(seed, "C05", idx));
    let p = GenParams {
        max_t: 9,
        undefined_pct: 25,
        prefix_names: rng.chance(1, 3),
        ..Default::default()
    };
    let spec = gen_world(&mut rng, &p);
    let mut opts = gen_opts(&mut rng, &spec);
    let mode = gen_mode(&mut rng, &spec, &mut opts, true);
    let behav = behav_exit0_all(&spec, &mut rng, 1);
    let mut script = RunScript::simple(opts);
    script.behav = behav;
    script.strategy = *rng.pick(&[Strategy::PlanOrder, Strategy::Reverse, Strategy::Uniform]);
    script.sched_seed = rng.next_u64();
    gen_knobs(&mut rng, &mut script);
    RunScenario { spec, mode, script, hang_ms: default_hang_ms() }
}

pub fn check_c05(ctx: &RunCtx, out: &mut Outcome) {
    let tr = &ctx.trace;
    let spec = &ctx.sc.spec;
    let named = ctx.sc.mode == Mode::Named;
    if named && ctx.sc.script.opts.targets.iter().all(|t| t.trim().is_empty()) {
        // -t was given and names nothing that exists: exactly the named targets = none
        out.nontrivial = true;
        if !tr.helpers.is_empty() || !tr.unknown_starts.is_empty() {
            out.violate("named_exact", "blank_target_list_ran_targets", format!("run -t '' started {:?}: an explicit target list that names no target must not fall back to the changed/all targets", tr.helpers.iter().map(|h| format!("{}:{}", h.command, h.target)).collect::<Vec<_>>()));
        }
        return;
    }
    // (5) run and analyze agree on acceptance (changed / all mode)
    let run_graph_err = tr.exit.as_ref().map(|e| {
        let s = String::from_utf8_lossy(&e.stderr);
        s.lines().rev().find_map(|l| serde_json::from_str::<Value>(l).ok()).map(|v| v["type"] == "graph").unwrap_or(false)
    }).unwrap_or(false);
    if !named {
        let analyze_graph_err = ctx.analyze_err.as_ref().map(|e| e["type"] == "graph").unwrap_or(false);
        if analyze_graph_err && run_graph_err {
            out.skipped = Some("both_reject_graph(C03 territory)".into());
            return;
        }
        if analyze_graph_err != run_graph_err {
            out.violate("acceptance_agrees", "graph_error_one_sided", format!("analyze --target-groups graph error: {}, run graph error: {}", analyze_graph_err, run_graph_err));
            return;
        }
    } else if run_graph_err {
        out.skipped = Some("run_rejects_graph(C03 territory)".into());
        return;
    }
    if let Some(h) = &tr.hang {
        out.advisories.push(format!("hang: {}", h));
        out.skipped = Some("run_hung(other property)".into());
        return;
    }
    let has_broken = spec.cmd_files.iter().any(|c| c.broken);
    let doc = match tr.result_json() {
        Some(d) => d,
        None => {
            if has_broken {
                // an executable that cannot be spawned aborts the run without a document: nothing to judge
                out.fault("command_file_that_cannot_be_spawned", 1);
                out.skipped = Some("run_aborted_on_unspawnable_command(no document)".into());
                return;
            }
            out.advisories.push(format!("no result document: {}", tr.stderr_str()));
            out.skipped = Some("no_result_document(other property)".into());
            return;
        }
    };
    let rg = result_groups(&doc);
    let all: BTreeSet<String> = spec.targets.iter().map(|t| t.path.clone()).collect();
    let deps = models::direct_deps(spec);
    let mut selected: BTreeSet<String> = BTreeSet::new();
    for (ci, (c, gs)) in rg.iter().enumerate() {
        let sets: Vec<BTreeSet<String>> = gs.iter().map(|g| g.keys().cloned().collect()).collect();
        let union: BTreeSet<String> = sets.iter().flatten().cloned().collect();
        selected = union.clone();
        // (2) every planned pair exactly once
        let total: usize = sets.iter().map(|s| s.len()).sum();
        if total != union.len() {
            out.violate("pair_once_in_result", "duplicate_pair", format!("command '{}': a target appears in more than one group: {:?}", c, sets));
        }
        match &ctx.sc.mode {
            Mode::All | Mode::Changed { .. } => {
                if let Some(a) = &ctx.analyze_before {
                    let ag = analyze_groups(a).unwrap_or_default();
                    if ag != sets {
                        out.violate("groups_match_analyze", "groups_differ", format!("command '{}' (results[{}]) ran groups {:?} but analyze --target-groups taken immediately before shows {:?}", c, ci, sets, ag));
                    }
                    let at: BTreeSet<String> = a["targets"].as_array().map(|x| x.iter().filter_map(|s| s.as_str().map(String::from)).collect()).unwrap_or_default();
                    if at != union {
                        out.violate("groups_match_analyze", "targets_differ", format!("command '{}' covered {:?} but analyze reports changed targets {:?}", c, union, at));
                    }
                }
                if ctx.sc.mode == Mode::All && union != all {
                    out.violate("all_targets_without_checkpoint", "not_all", format!("no checkpoint exists, yet command '{}' covered {:?}, configured {:?}", c, union, all));
                }
            }
            Mode::Named => {
                // `app/` and `./app` are spellings of `app` (a tool that accepts them must treat them as `app`)
                let named_set: BTreeSet<String> = ctx.sc.script.opts.targets.iter().map(|t| t.trim_start_matches("./").trim_end_matches('/').to_string()).collect();
                if ctx.sc.script.opts.deps {
                    let want = models::closure(&deps, &named_set);
                    if union != want {
                        let extra: Vec<&String> = union.difference(&want).collect();
                        let missing: Vec<&String> = want.difference(&union).collect();
                        // closure under R-dep plus "is a raw string prefix of" edges: what a byte-level trie yields
                        let mut bdeps = deps.clone();
                        for a in &spec.targets {
                            for b in &spec.targets {
                                let uses_hit = a.uses.iter().any(|x| x.starts_with(&b.path));
                                if a.path != b.path && (a.path.starts_with(&b.path) || uses_hit) {
                                    bdeps.get_mut(&a.path).unwrap().insert(b.path.clone());
                                }
                            }
                        }
                        let bwant = models::closure(&bdeps, &named_set);
                        let class = if missing.is_empty() && !extra.is_empty() && union == bwant {
                            "extra_byte_prefix_sibling"
                        } else if missing.is_empty() {
                            "extra_target"
                        } else {
                            "missing_target"
                        };
                        out.violate("deps_closure", class, format!("-t {:?} --deps: command '{}' covered {:?}; named targets plus transitive dependencies are {:?} (extra {:?}, missing {:?})", named_set, c, union, want, extra, missing));
                    }
                    // layering of the closure: dependency strictly earlier
                    for (j, g) in sets.iter().enumerate() {
                        for t in g {
                            for u in models::trans_deps(&deps, t) {
                                if sets[j..].iter().any(|s| s.contains(&u)) {
                                    out.advisories.push(format!("layering: {} not after its dependency {}", t, u));
                                }
                            }
                        }
                    }
                } else {
                    if union != named_set {
                        out.violate("named_exact", "set_differs", format!("-t {:?}: command '{}' covered {:?}", named_set, c, union));
                    }
                    if sets.iter().any(|s| s.len() != 1) {
                        out.violate("named_exact", "not_one_at_a_time", format!("-t {:?} without --deps must run one target at a time, groups {:?}", named_set, sets));
                    }
                }
            }
        }
    }
    // commands present
    let got: Vec<String> = rg.iter().map(|r| r.0.clone()).collect();
    if got != ctx.commands {
        out.violate("pair_once_in_result", "commands_differ", format!("results[] has commands {:?}, requested {:?}", got, ctx.commands));
    }
    // (3) starts: subset of planned pairs, at most once, exactly once when defined (nothing fails here), never when undefined
    let mut starts: BTreeMap<(String, String), usize> = BTreeMap::new();
    for h in &tr.helpers {
        *starts.entry((h.command.clone(), h.target.clone())).or_insert(0) += 1;
    }
    for u in &tr.unknown_starts {
        out.violate("started_once", "unannounced_start", format!("a process started outside the plan: {}", u));
    }
    for ((c, t), n) in &starts {
        let planned = rg.iter().any(|(rc, gs)| rc == c && gs.iter().any(|g| g.contains_key(t)));
        if !planned {
            out.violate("started_once", "unplanned_start", format!("executable of '{}' for '{}' was started but that pair is not in the result document", c, t));
        }
        if *n > 1 {
            // same command twice in the list legitimately starts it twice
            let times = ctx.commands.iter().filter(|x| *x == c).count();
            if *n > times {
                out.violate("started_once", "started_twice", format!("executable of '{}' for '{}' was started {} times", c, t, n));
            }
        }
    }
    let mut undefined_pairs = 0;
    for (c, gs) in &rg {
        for g in gs {
            for (t, r) in g {
                let n = starts.get(&(c.clone(), t.clone())).cloned().unwrap_or(0);
                match definition(spec, c, t) {
                    Def::Defined => {
                        let broken = spec.cmd_files.iter().any(|f| f.broken && f.command == *c && f.target == *t);
                        if n == 0 && !broken && !has_broken {
                            out.violate("started_once", "defined_not_started", format!("'{}' is defined for '{}' and nothing failed, but no process was started (status {})", c, t, r.status));
                        }
                    }
                    _ => {
                        undefined_pairs += 1;
                        if n > 0 {
                            out.violate("undefined_never_started", "started", format!("'{}' is not defined for '{}' but a process was started", c, t));
                        }
                    }
                }
            }
        }
    }
    out.nontrivial = (!selected.is_empty() && selected.len() < all.len()) || undefined_pairs > 0;
}

impl Property for C05 {
    fn id(&self) -> &'static str {
        "C05"
    }
    fn count(&self, tier: Tier) -> usize {
        match tier {
            Tier::Quick => 600,
            Tier::Thorough => 12000,
        }
    }
    fn generate(&self, seed: u64, idx: usize, tier: Tier) -> Value {
        let mut sc = gen_c05(seed, idx, tier);
        seq_named_like_command(&mut sc, seed, "C05-seqname", idx);
        to_val(&sc)
    }
    fn execute(&self, v: &Value) -> Outcome {
        let mut o = exec_with(v, check_c05);
        if let Ok(sc) = from_val(v) {
            o.signature = format!("{}|{:?}|{:?}|{}", o.signature, sc.mode, sc.script.opts.targets, sc.script.opts.deps);
        }
        o
    }
    fn shrink(&self, v: &Value) -> Vec<Value> {
        from_val(v).map(|s| shrink_run_scenario(&s).iter().map(to_val).collect()).unwrap_or_default()
    }
    fn rule(&self) -> String {
        "seeded worlds (2-9 targets, nesting, uses, 25% undefined pairs, one third with prefix-sharing sibling names app/app2/app-web) x selection mode (no checkpoint / checkpoint+edits / -t with and without --deps); oracle: analyze --target-groups taken immediately before the run, R-dep closure for --deps, helper start multiset vs result document. Round 12: one world in three that has sequences names a sequence like one of its member commands (`-s build` runs the members of the sequence `build`). Non-trivial = selected set is a strict non-empty subset of the configured targets or contains an undefined pair; distinct = hash of (world shape, group shape, mode, named set)".into()
    }
    fn components(&self) -> Value {
        components()
    }
    fn assumptions(&self) -> Vec<String> {
        vec![
            "changed-mode selection is judged against monorail's own analyze output (the property says 'as analyze reports'); C01/C03 are not re-asserted".into(),
            "--deps closure is judged against R-dep (whole path components)".into(),
            "configurations rejected as cyclic by both run and analyze are skipped and counted".into(),
        ]
    }
}

// ---------------------------------------------------------------------------------------------
// C06

pub struct C06;

fn gen_c06(seed: u64, idx: usize, _tier: Tier) -> RunScenario {
    let mut rng = Rng::new(scenario_seed(seed, "C06", idx));
    let fault_free = rng.chance(1, 4);
    let very_wide = rng.chance(1, 25);
    let p = GenParams {
        max_t: 8,
        undefined_pct: if fault_free { 0 } else { 12 },
        nonexec_pct: if fault_free { 0 } else { 6 },
        // a layer of 65-80 independent targets: wider than any batch size a scheduler might use
        wide_group: if very_wide { Some(rng.range(65, 80)) } else { None },
        ..Default::default()
    };
    let spec = gen_world(&mut rng, &p);
    let mut opts = gen_opts(&mut rng, &spec);
    let mode = if very_wide { Mode::All } else { gen_mode(&mut rng, &spec, &mut opts, true) };
    opts.fail_on_undefined = !fault_free && rng.chance(1, 2);
    let mut behav = behav_exit0_all(&spec, &mut rng, 2);
    if !fault_free && !behav.is_empty() {
        let nf = rng.below(4);
        // negative = killed by that signal (SIGKILL, SIGTERM, SIGSEGV): no exit code at all
        let codes = [1, 1, 2, 3, 126, 127, 128, 255, 7, 42, -9, -15, -11];
        // bias: several failures for the same command (often the same group)
        let c0 = behav[rng.below(behav.len())].command.clone();
        for _ in 0..nf {
            let cands: Vec<usize> = (0..behav.len()).filter(|&i| behav[i].command == c0 || rng.chance(1, 4)).collect();
            if cands.is_empty() {
                continue;
            }
            let i = cands[rng.below(cands.len())];
            behav[i].code = *rng.pick(&codes);
        }
    }
    if !behav.is_empty() && rng.chance(1, 12) {
        // a command leaves a background process behind that keeps its pipes open for a while after it exited 0
        let i = rng.below(behav.len());
        if behav[i].code == 0 {
            behav[i].hold_pipes_ms = *rng.pick(&[300u32, 1800, 2600]);
        }
    }
    let mut script = RunScript::simple(opts);
    script.behav = behav;
    script.strategy = gen_strategy(&mut rng);
    script.sched_seed = rng.next_u64();
    script.prio = deps_last_prio(&spec);
    gen_knobs(&mut rng, &mut script);
    if rng.chance(1, 3) {
        // which shutdown point gets the "compressor threads already gone" schedule (>= 2: after a first pair of sends)
        script.until_at = Some(rng.range(2, 3));
    }
    let mut sc = RunScenario { spec, mode, script, hang_ms: default_hang_ms() };
    if rng.chance(1, 12) {
        late_exec(&mut rng, &mut sc);
    }
    sc
}

/// A command file of the run's second command is a plain, non-executable file when the run starts and becomes
/// executable while the first command is still being processed: at its turn it is defined and executable.
fn late_exec(rng: &mut Rng, sc: &mut RunScenario) {
    let cmds = expanded_commands(&sc.spec, &sc.script.opts);
    if cmds.len() >= 2 && !matches!(sc.mode, Mode::Changed { .. }) {
        let c2 = cmds[1].clone();
        let cands: Vec<usize> = (0..sc.spec.cmd_files.len()).filter(|&i| sc.spec.cmd_files[i].exec && !sc.spec.cmd_files[i].broken && sc.spec.cmd_files[i].command == c2).collect();
        if !cands.is_empty() && cmds.iter().filter(|c| **c == c2).count() == 1 {
            let i = cands[rng.below(cands.len())];
            sc.script.env_actions.push(crate::rundrv::EnvAction { point: "run.group.done".into(), nth: 1, act: crate::rundrv::EnvAct::MakeHelper { rel: sc.spec.cmd_files[i].rel.clone() } });
        }
    }
}

pub fn check_c06(ctx: &RunCtx, out: &mut Outcome) {
    let tr = &ctx.trace;
    let spec = &ctx.sc.spec;
    let fou = ctx.sc.script.opts.fail_on_undefined;
    if let Some(h) = &tr.hang {
        out.violate("exit_status", "hang", format!("run did not finish: {}", h));
        return;
    }
    let exit = match &tr.exit {
        Some(e) => e,
        None => {
            out.violate("exit_status", "no_exit", "run never exited".into());
            return;
        }
    };
    // graph rejections are other properties' business
    let errdoc = String::from_utf8_lossy(&exit.stderr).lines().rev().find_map(|l| serde_json::from_str::<Value>(l).ok());
    if exit.code == Some(2) && errdoc.as_ref().map(|e| e["type"] == "graph").unwrap_or(false) {
        out.skipped = Some("run_rejects_graph(C03 territory)".into());
        return;
    }
    let has_broken = spec.cmd_files.iter().any(|f| f.broken);
    if exit.code == Some(2) && has_broken {
        // a command file with the x bit that cannot be executed (its interpreter does not exist): no clause of the
        // statement covers it, so aborting loudly is tolerated - but nothing may be started after the failed spawn
        let msg = errdoc.as_ref().map(|e| e["message"].as_str().unwrap_or("").to_string()).unwrap_or_else(|| tr.stderr_str());
        let is_broken = |c: &str, t: &str| spec.cmd_files.iter().any(|f| f.broken && f.command == c && f.target == t);
        if let Some(k) = tr.spawn_reqs.iter().position(|(_, c, t)| is_broken(c, t)) {
            if msg.contains("No such file") || msg.contains("os error 2") {
                for (_, c, t) in &tr.spawn_reqs[k + 1..] {
                    out.violate("later_not_started", "started_after_spawn_failure", format!("'{}' for '{}' was started after the spawn of a command file that cannot be executed had failed", c, t));
                }
                out.fault("command_file_that_cannot_be_executed", 1);
                out.probe("spawn_failure_aborted_loudly", 1);
                out.nontrivial = true;
                return;
            }
        }
    }
    if exit.code == Some(2) || exit.code.is_none() {
        let msg = errdoc.as_ref().map(|e| e["message"].as_str().unwrap_or("").to_string()).unwrap_or_else(|| tr.stderr_str());
        let class = if msg.contains("channel closed") { "channel_closed" } else { "fatal" };
        out.violate("exit_status", class, format!("run aborted with exit status {:?} ({}) although every fault injected was a child failure the property covers; until_used={}", exit.code, msg, tr.until_used));
        return;
    }
    // stdout is one JSON document
    let so = String::from_utf8_lossy(&exit.stdout);
    let lines: Vec<&str> = so.lines().filter(|l| !l.trim().is_empty()).collect();
    let doc: Value = match (lines.len(), lines.first().and_then(|l| serde_json::from_str::<Value>(l).ok())) {
        (1, Some(d)) => d,
        _ => {
            out.violate("single_document", "stdout", format!("stdout is not exactly one JSON document: {:?}", so.chars().take(200).collect::<String>()));
            return;
        }
    };
    let rg = result_groups(&doc);
    let mut failed_before = false; // a failure in an earlier group or command
    let mut any_failure = false;
    let mut faults_fired = 0u64;
    for (c, gs) in &rg {
        for g in gs {
            let started: Vec<&crate::rundrv::HelperRec> = tr.helpers.iter().filter(|h| h.command == *c && g.contains_key(&h.target)).collect();
            if failed_before {
                for (t, r) in g {
                    if r.status != "skipped" {
                        out.violate("later_reported_skipped", "status", format!("'{}' for '{}' comes after a failure but is reported '{}', not 'skipped'", c, t, r.status));
                    }
                }
                for h in &started {
                    out.violate("later_not_started", "started_after_failure", format!("executable '{}' for '{}' was started although an earlier group/command had failed", h.command, h.target));
                }
                continue;
            }
            // failures that belong to this group
            let failing_children: Vec<&&crate::rundrv::HelperRec> = started.iter().filter(|h| h.exit_code.map(|k| k != 0).unwrap_or(false)).collect();
            let mut static_fail_possible = false;
            let mut static_fail_reported = false;
            for (t, r) in g {
                let d = definition(spec, c, t);
                let hs: Vec<&&crate::rundrv::HelperRec> = started.iter().filter(|h| h.target == *t).collect();
                // a command file with the x bit that cannot be executed: a tool that carries on may call it
                // not_executable or a code-less error - either way it is a failure of the run
                let broken_pair = spec.cmd_files.iter().any(|f| f.broken && f.command == *c && f.target == *t);
                if broken_pair && hs.is_empty() && (r.status == "not_executable" || (r.status == "error" && r.code.is_none())) {
                    static_fail_possible = true;
                    static_fail_reported = true;
                    out.fault("command_file_that_cannot_be_executed", 1);
                    continue;
                }
                // truthfulness against the helper trace
                match r.status.as_str() {
                    "success" => {
                        if r.code != Some(0) {
                            out.violate("status_truthful", "success_code", format!("'{}'/'{}' success with code {:?}", c, t, r.code));
                        }
                        match hs.first() {
                            Some(h) if h.exit_code == Some(0) => {}
                            Some(h) => out.violate("status_truthful", "success_but_not_exit0", format!("'{}' for '{}' reported success but the process was told to exit {:?}", c, t, h.exit_code)),
                            None => out.violate("status_truthful", "success_without_process", format!("'{}' for '{}' reported success but no process was started", c, t)),
                        }
                    }
                    "error" => match (hs.first(), r.code) {
                        (None, _) => out.violate("status_truthful", "error_without_process", format!("'{}' for '{}' reported error but no process was started", c, t)),
                        (Some(h), Some(k)) => {
                            if h.exit_code != Some(k as i32) {
                                out.violate("status_truthful", "wrong_code", format!("'{}' for '{}' reported error code {} but the process exited with {:?}", c, t, k, h.exit_code));
                            }
                            if k == 0 {
                                out.violate("status_truthful", "error_code0", format!("'{}' for '{}' reported error with code 0", c, t));
                            }
                        }
                        (Some(h), None) => {
                            // code-less error: a process killed by a signal, or a member overtaken by a sibling's failure
                            let other_failure = failing_children.iter().any(|f| f.target != *t);
                            let by_signal = h.exit_code.map(|k| k < 0).unwrap_or(false);
                            if !other_failure && !by_signal {
                                out.violate("status_truthful", "codeless_error_alone", format!("'{}' for '{}' reported error without a code although no other member of its group failed (process exit {:?})", c, t, h.exit_code));
                            }
                        }
                    },
                    "undefined" | "not_executable" | "skipped" => {
                        if !hs.is_empty() {
                            out.violate("status_truthful", "process_for_unstarted_status", format!("'{}' for '{}' reported '{}' but a process was started", c, t, r.status));
                        }
                        if r.status == "undefined" && d != Def::Undefined {
                            out.violate("status_truthful", "undefined_but_defined", format!("'{}' for '{}' reported undefined but a command file exists", c, t));
                        }
                        if r.status == "not_executable" && d != Def::NotExec {
                            out.violate("status_truthful", "not_executable_wrong", format!("'{}' for '{}' reported not_executable, definition is {:?}", c, t, d));
                        }
                        if (r.status == "undefined" && fou) || r.status == "not_executable" {
                            static_fail_reported = true;
                        }
                    }
                    s => out.violate("status_truthful", "unexpected_status", format!("'{}' for '{}' has status '{}'", c, t, s)),
                }
                if d == Def::NotExec || (d == Def::Undefined && fou) {
                    static_fail_possible = true;
                }
                // a defined member may only be skipped when a static failure precedes it in the same group
                if d == Def::Defined && r.status == "skipped" && !static_fail_possible_in_group(spec, c, g, fou) {
                    out.violate("status_truthful", "skipped_in_healthy_group", format!("'{}' for '{}' skipped although nothing before it failed", c, t));
                }
                if d == Def::Defined && hs.is_empty() && r.status != "skipped" {
                    // covered by the status arms above
                }
                // failing child must carry its code unless another sibling failed too
                if let Some(h) = hs.first() {
                    if let Some(k) = h.exit_code {
                        if k != 0 && !(r.status == "error" && (r.code == Some(k as i64) || (r.code.is_none() && (failing_children.len() > 1 || k < 0)))) {
                            out.violate("status_truthful", "failure_not_reported", format!("'{}' for '{}' exited {} but is reported {} {:?}", c, t, k, r.status, r.code));
                        }
                    }
                }
            }
            if static_fail_possible && !static_fail_reported {
                out.violate("status_truthful", "static_failure_unreported", format!("command '{}' group {:?} contains a not-executable/undefined(--fail-on-undefined) member but none is reported as such", c, g));
            }
            let group_failed = static_fail_reported || !failing_children.is_empty();
            if group_failed {
                faults_fired += (failing_children.len() + static_fail_reported as usize) as u64;
                failed_before = true;
                any_failure = true;
            }
        }
    }
    // the plan is the same for every command: a pair that is reported for one command and absent
    // for another was dropped from the document
    if let Some((c0, g0)) = rg.first() {
        let t0: BTreeSet<String> = g0.iter().flat_map(|g| g.keys().cloned()).collect();
        for (c, gs) in &rg[1..] {
            let t: BTreeSet<String> = gs.iter().flat_map(|g| g.keys().cloned()).collect();
            if t != t0 {
                out.violate("status_truthful", "pair_missing_from_document", format!("command '{}' reports targets {:?} but command '{}' reports {:?}", c0, t0, c, t));
            }
        }
        // and in all-targets mode every configured target must be reported
        if ctx.sc.mode == Mode::All {
            let all: BTreeSet<String> = spec.targets.iter().map(|t| t.path.clone()).collect();
            if t0 != all {
                out.violate("status_truthful", "pair_missing_from_document", format!("no checkpoint: every target {:?} must be reported, document has {:?}", all, t0));
            }
        }
    }
    let failed_flag = doc["failed"].as_bool();
    if failed_flag != Some(any_failure) {
        out.violate("failed_flag", "mismatch", format!("failed={:?} but the injected faults imply failed={}", failed_flag, any_failure));
    }
    let want = if any_failure { 1 } else { 0 };
    if exit.code != Some(want) {
        out.violate("exit_status", "wrong_code", format!("exit status {:?}, expected {} (failure injected: {})", exit.code, want, any_failure));
    }
    // helpers of pairs not in the document at all
    for h in &tr.helpers {
        if !rg.iter().any(|(c, gs)| *c == h.command && gs.iter().any(|g| g.contains_key(&h.target))) {
            out.violate("status_truthful", "process_outside_document", format!("process '{}' for '{}' started but absent from the result document", h.command, h.target));
        }
    }
    if faults_fired > 0 {
        out.fault("child_failure_or_static_failure", faults_fired);
    }
    out.nontrivial = faults_fired > 0 || tr.held_moves > 0 || tr.until_used;
}

fn static_fail_possible_in_group(spec: &WorldSpec, c: &str, g: &BTreeMap<String, PairResult>, fou: bool) -> bool {
    g.keys().any(|t| {
        let d = definition(spec, c, t);
        d == Def::NotExec || (d == Def::Undefined && fou) || spec.cmd_files.iter().any(|f| f.broken && f.command == c && f.target == *t)
    })
}

impl Property for C06 {
    fn id(&self) -> &'static str {
        "C06"
    }
    fn count(&self, tier: Tier) -> usize {
        match tier {
            Tier::Quick => 700,
            Tier::Thorough => 14000,
        }
    }
    fn generate(&self, seed: u64, idx: usize, tier: Tier) -> Value {
        let mut sc = gen_c06(seed, idx, tier);
        clockify(&mut sc.spec, seed, "C06-clock", idx, 6);
        {
            let mut xrng = Rng::new(scenario_seed(seed, "C06-scripts", idx));
            if xrng.chance(1, 8) {
                sc.spec.script_wrappers = xrng.range(1, 4) as u8;
            }
        }
        {
            // one scenario in twelve: one command file has the x bit but cannot be executed (own generator)
            let mut brng = Rng::new(scenario_seed(seed, "C06-broken", idx));
            let cands: Vec<usize> = (0..sc.spec.cmd_files.len()).filter(|&i| sc.spec.cmd_files[i].exec && !sc.spec.cmd_files[i].command.ends_with("__decoy")).collect();
            if brng.chance(1, 12) && !cands.is_empty() && sc.script.env_actions.is_empty() {
                let i = cands[brng.below(cands.len())];
                sc.spec.cmd_files[i].broken = true;
            } else if brng.chance(1, 14) && !sc.script.behav.is_empty() {
                // one child closes both its output streams (`exec >build.log 2>&1`) and stays alive for 1.2-2.5 s
                // of real time before it exits - half of the time with a failure: its status is what it exits with
                let i = brng.below(sc.script.behav.len());
                let b = &mut sc.script.behav[i];
                b.outs.push(crate::rundrv::OutStep { fd: 1, hex: "-".into(), pause_ms: 0, close: true });
                b.outs.push(crate::rundrv::OutStep { fd: 2, hex: "-".into(), pause_ms: 0, close: true });
                b.exit_pause_ms = *brng.pick(&[1200u32, 1600, 2500]);
                if b.code == 0 && brng.chance(1, 2) {
                    b.code = *brng.pick(&[1, 3, 42]);
                }
            }
        }
        to_val(&sc)
    }
    fn execute(&self, v: &Value) -> Outcome {
        let mut o = exec_with(v, check_c06);
        if let Ok(sc) = from_val(v) {
            let codes: Vec<i32> = sc.script.behav.iter().filter(|b| b.code != 0).map(|b| b.code).collect();
            o.signature = format!("{}|{:?}|{:?}|{}|{:?}", o.signature, sc.mode, codes, sc.script.opts.fail_on_undefined, sc.script.until_at);
        }
        o
    }
    fn shrink(&self, v: &Value) -> Vec<Value> {
        let mut out = vec![];
        if let Ok(s) = from_val(v) {
            // first: make failing children succeed, one at a time
            for i in 0..s.script.behav.len() {
                if s.script.behav[i].code != 0 {
                    let mut x = s.clone();
                    x.script.behav[i].code = 0;
                    out.push(to_val(&x));
                }
            }
            out.extend(shrink_run_scenario(&s).iter().map(to_val));
        }
        out
    }
    fn rule(&self) -> String {
        "seeded worlds x selection mode x faults: 0-3 children exiting 1..255 (biased into one command/group), 12% undefined pairs, 6% files without x bit, --fail-on-undefined on/off; one quarter fault-free; schedules as C04 plus monorail parked at its own bookkeeping points (task result, shutdown sends, group done, result/pointer writes) while children move, and in one third of the runs the schedule 'compressor threads have exited before the remaining shutdown messages are sent' forced at a seeded shutdown point. Oracle: status model + truthfulness against the helper trace + exit status + one JSON document. Rounds 11-12: one scenario in twelve has a command file with the x bit that cannot be executed (aborting loudly with nothing started afterwards is tolerated; a document must count it as a failure); one in fourteen has a child that closes both output streams and exits - half of the time failing - 1.2-2.5 s later; one in six runs under a wrong or jumping wall clock. Non-trivial = a fault fired, or an internal point was held while another actor moved, or the forced shutdown schedule was used; distinct = hash of (world, groups, strategy, mode, failing codes, flags)".into()
    }
    fn components(&self) -> Value {
        components()
    }
    fn assumptions(&self) -> Vec<String> {
        vec![
            "status of a same-group survivor of a sibling's failure may be success/0 (if it was told to exit 0) or code-less error: tokio's select! order is not seeded in the shipped runtime, both are accepted".into(),
            "within a group that contains a not-executable/undefined(--fail-on-undefined) member, other members may be started or skipped (plan order inside a group is not observable)".into(),
            "exit status 2 is never acceptable for these inputs".into(),
        ]
    }
}

// ---------------------------------------------------------------------------------------------
// C11

pub struct C11;

#[derive(serde::Serialize, serde::Deserialize, Clone, Debug)]
struct C11Extra {
    /// argmap files: (relative path, json text)
    argmap_files: Vec<(String, String)>,
    /// (target, command) pairs whose `definitions` path names a file that does not exist while a file of the same
    /// stem lies in the command directory: whatever the tool reports for them, it must not run that file
    #[serde(default)]
    dangling: Vec<(String, String)>,
}

const ARG_POOL: [&str; 14] = ["plain", "with space", "", "\"quoted\"", "it's", "$HOME", "*", "a\nb", "ünï-✓", "--flag=value", "-x", "\\back\\slash", "tab\there", "; rm -rf /"];

fn gen_argv(rng: &mut Rng) -> Vec<String> {
    let k = rng.below(4);
    (0..k)
        .map(|_| {
            if rng.chance(1, 25) {
                "L".repeat(4096)
            } else {
                ARG_POOL[rng.below(ARG_POOL.len())].to_string()
            }
        })
        .collect()
}

/// 2-4 targets whose `commands.path` is one shared directory; its `build.sh` (and `test.py`) serve the targets
/// without a definition, while one or two targets define the command with an explicit path of their own - and, in
/// half of the worlds, one target keeps its executable directly in the target directory. Whatever is resolved for
/// one target must not leak into another that shares the directory.
fn gen_c11_shared_cmd_dir(rng: &mut Rng) -> (RunScenario, C11Extra) {
    let n = rng.range(2, 4);
    let cmds: Vec<String> = if rng.chance(1, 2) { vec!["build".into()] } else { vec!["build".into(), "test".into()] };
    let mut targets = vec![];
    let mut cmd_files = vec![];
    let mut argmap_files = vec![];
    let n_defs = rng.range(1, (n - 1).min(2));
    let mut order: Vec<usize> = (0..n).collect();
    rng.shuffle(&mut order);
    let with_def: Vec<usize> = order[..n_defs].to_vec();
    let in_target_dir = if rng.chance(1, 2) { Some(order[n - 1]) } else { None };
    for i in 0..n {
        let path = format!("t{:02}", i);
        let mut t = crate::world::TargetSpec { path: path.clone(), commands_path: Some("shared-cmds".into()), ..Default::default() };
        for c in &cmds {
            let ext = if c == "build" { "sh" } else { "py" };
            if with_def.contains(&i) {
                let rel = format!("{}/tools/{}-impl", path, c);
                t.defs.push((c.clone(), rel.clone()));
                cmd_files.push(CmdFile { target: path.clone(), command: c.clone(), rel, exec: true, broken: false });
            } else if in_target_dir == Some(i) {
                // the executable sits directly in the target directory, which is also the child's working directory
                let rel = format!("{}/{}", path, c);
                t.defs.push((c.clone(), rel.clone()));
                cmd_files.push(CmdFile { target: path.clone(), command: c.clone(), rel, exec: true, broken: false });
            } else {
                cmd_files.push(CmdFile { target: path.clone(), command: c.clone(), rel: format!("shared-cmds/{}.{}", c, ext), exec: true, broken: false });
            }
        }
        let mut m = serde_json::Map::new();
        for c in &cmds {
            m.insert(c.clone(), json!([format!("--for={}", path), format!("{} {}", c, i)]));
        }
        argmap_files.push((format!("{}/monorail/argmap/base.json", path), Value::Object(m).to_string()));
        targets.push(t);
    }
    let spec = WorldSpec { targets, cmd_files, files: vec![], sequences: vec![], max_retained_runs: 2, gitignore: vec![], git: true, lock_host: None, default_ports: 0, omit_max_retained: false, sha256_repo: false, clock_plan: vec![], script_wrappers: 0 };
    let mut opts = RunOpts { commands: cmds.clone(), ..Default::default() };
    let mode = if rng.chance(1, 2) {
        let mut ts: Vec<String> = spec.targets.iter().map(|t| t.path.clone()).collect();
        rng.shuffle(&mut ts);
        opts.targets = ts;
        Mode::Named
    } else {
        Mode::All
    };
    let mut script = RunScript::simple(opts);
    script.strategy = *rng.pick(&[Strategy::PlanOrder, Strategy::Reverse, Strategy::Uniform]);
    script.sched_seed = rng.next_u64();
    script.workers = Some(*rng.pick(&[1u32, 4, 16]));
    script.rand_seed = Some(rng.next_u64() % 1_000_000);
    (RunScenario { spec, mode, script, hang_ms: default_hang_ms() }, C11Extra { argmap_files, dangling: vec![] })
}

fn gen_c11(seed: u64, idx: usize, _tier: Tier) -> (RunScenario, C11Extra) {
    {
        let mut srng = Rng::new(scenario_seed(seed, "C11-shared-cmd-dir", idx));
        if srng.chance(1, 10) {
            return gen_c11_shared_cmd_dir(&mut srng);
        }
    }
    let mut rng = Rng::new(scenario_seed(seed, "C11", idx));
    // one world in ten has dozens of targets (more argmap files in one run than any batch size a loader might use)
    let n = if rng.chance(1, 10) { rng.range(18, 40) } else { rng.range(1, 8) };
    let ncmd = rng.range(1, 3);
    // command names may themselves contain a dot: `lint.fix` is defined by `lint.fix.sh`, not by `lint.sh`
    let pool = ["build", "lint.fix", "test", "fmt"];
    let cmds: Vec<String> = pool[..ncmd].iter().map(|s| s.to_string()).collect();
    let mut targets = vec![];
    let mut cmd_files = vec![];
    let mut files = vec![];
    let mut argmap_files = vec![];
    // an argmap name may have a directory component (`--argmaps env/linux` reads <argmap dir>/env/linux.json)
    let maps = ["dev", "ci", "extra", "env/linux"];
    let dangling_world = rng.chance(1, 12);
    let mut dangling: Vec<(String, String)> = vec![];
    for i in 0..n {
        let path = if i > 0 && rng.chance(1, 5) { format!("t00/n{:02}", i) } else { format!("t{:02}", i) };
        let mut t = crate::world::TargetSpec { path: path.clone(), ..Default::default() };
        if rng.chance(1, 4) {
            t.commands_path = Some(format!("{}/scripts", path));
        }
        if rng.chance(1, 3) {
            // own directory inside the target, own directory outside, or one directory shared by several targets
            t.argmaps_path = Some(match rng.below(3) {
                0 => format!("{}/args", path),
                1 => format!("shared-args/{}", i),
                _ => "shared-args/common".to_string(),
            });
        }
        let cdir = t.commands_path.clone().unwrap_or_else(|| format!("{}/monorail/cmd", path));
        let adir = t.argmaps_path.clone().unwrap_or_else(|| format!("{}/monorail/argmap", path));
        for c in &cmds {
            match rng.below(10) {
                0 => {
                    // undefined; sometimes with a near miss whose stem is `<command>.alt`
                    if rng.chance(1, 2) {
                        cmd_files.push(CmdFile { target: path.clone(), command: format!("{}__decoy", c), rel: format!("{}/{}.alt.sh", cdir, c), exec: true, broken: false });
                    }
                }
                1 | 2 => {
                    // explicit definition path, inside or outside the target
                    let rel = if rng.chance(1, 2) { format!("{}/tools/{}-impl", path, c) } else { format!("tools/{}-{}.bin", c, i) };
                    t.defs.push((c.clone(), rel.clone()));
                    if dangling_world && dangling.is_empty() {
                        // the defined file was renamed away; a same-stem file sits in the command directory
                        dangling.push((path.clone(), c.clone()));
                        cmd_files.push(CmdFile { target: path.clone(), command: format!("{}__decoy", c), rel: format!("{}/{}.sh", cdir, c), exec: true, broken: false });
                        continue;
                    }
                    cmd_files.push(CmdFile { target: path.clone(), command: c.clone(), rel, exec: true, broken: false });
                    // a decoy in the command directory that must NOT be used
                    if rng.chance(1, 2) {
                        cmd_files.push(CmdFile { target: path.clone(), command: format!("{}__decoy", c), rel: format!("{}/{}.sh", cdir, c), exec: true, broken: false });
                    }
                }
                3 => {
                    // definition with empty path: falls back to stem search
                    t.defs.push((c.clone(), String::new()));
                    let ext = *rng.pick(&["sh", "py", "awk"]);
                    cmd_files.push(CmdFile { target: path.clone(), command: c.clone(), rel: format!("{}/{}.{}", cdir, c, ext), exec: true, broken: false });
                }
                _ => {
                    // an extension-less file `lint.fix` has the stem `lint`: it would not define `lint.fix`
                    let ext = if c.contains('.') { *rng.pick(&["sh", "py", "rb"]) } else { *rng.pick(&["sh", "py", "rb", ""]) };
                    let rel = if ext.is_empty() { format!("{}/{}", cdir, c) } else { format!("{}/{}.{}", cdir, c, ext) };
                    cmd_files.push(CmdFile { target: path.clone(), command: c.clone(), rel, exec: true, broken: false });
                }
            }
        }
        // argmaps
        let mk = |rng: &mut Rng| -> String {
            let mut m = serde_json::Map::new();
            for c in &cmds {
                if rng.chance(2, 3) {
                    m.insert(c.clone(), gen_argv(rng).into());
                }
            }
            Value::Object(m).to_string()
        };
        // a directory shared by several targets holds one set of files, written once
        let mut put = |files: &mut Vec<(String, String)>, p: String, body: String| {
            if !files.iter().any(|(f, _)| *f == p) {
                files.push((p, body));
            }
        };
        match rng.below(4) {
            0 => {}
            1 => put(&mut argmap_files, format!("{}/base.json", adir), "{}".to_string()),
            _ => {
                let b = mk(&mut rng);
                put(&mut argmap_files, format!("{}/base.json", adir), b)
            }
        }
        for m in &maps {
            if rng.chance(1, 2) {
                let b = mk(&mut rng);
                put(&mut argmap_files, format!("{}/{}.json", adir, m), b);
            }
        }
        // neighbours that share a stem with an argmap file (an editor backup, notes): never an argmap
        if rng.chance(1, 4) {
            let name = *rng.pick(&["base", "dev", "ci"]);
            let ext = *rng.pick(&["json~", "bak", "txt", "md"]);
            let mut m = serde_json::Map::new();
            for c in &cmds {
                m.insert(c.clone(), serde_json::json!(["--STALE-NEIGHBOUR"]));
            }
            let p = format!("{}/{}.{}", adir, name, ext);
            if !files.iter().any(|(f, _): &(String, String)| *f == p) {
                files.push((p, Value::Object(m).to_string()));
            }
        }
        if cmd_files.iter().all(|c| c.target != path) {
            files.push((format!("{}/keep.txt", path), "x".into()));
        }
        targets.push(t);
    }
    // declaration order is not lexicographic order
    if rng.chance(2, 3) {
        rng.shuffle(&mut targets);
    }
    let spec = WorldSpec { targets, cmd_files, files, sequences: vec![], max_retained_runs: 2, gitignore: vec![], git: true, lock_host: None, default_ports: 0, omit_max_retained: false, sha256_repo: false, clock_plan: vec![], script_wrappers: 0 };
    let mut opts = RunOpts::default();
    let k = rng.range(1, cmds.len());
    opts.commands = cmds[..k].to_vec();
    opts.no_base_argmaps = rng.chance(1, 4);
    let mut ms: Vec<String> = maps.iter().map(|s| s.to_string()).collect();
    rng.shuffle(&mut ms);
    ms.truncate(rng.below(4));
    opts.argmaps = ms;
    let mode = if rng.chance(1, 4) {
        // the single-command single-target form with --args
        opts.commands.truncate(1);
        opts.targets = vec![spec.targets[rng.below(spec.targets.len())].path.clone()];
        opts.args = gen_argv(&mut rng);
        if opts.args.is_empty() {
            opts.args.push("solo".into());
        }
        opts.args_first = rng.chance(1, 2);
        // now and then the target is spelled the way a shell completes it: a tool may refuse the spelling, but one
        // that accepts it must still pass the --args values
        match rng.below(12) {
            0 => opts.targets[0] = format!("{}/", opts.targets[0]),
            1 => opts.targets[0] = format!("./{}", opts.targets[0]),
            _ => {}
        }
        // clap would take a leading '-' value as a flag; the documented form passes plain values
        for a in opts.args.iter_mut() {
            if a.starts_with('-') {
                *a = format!("v{}", a);
            }
        }
        Mode::Named
    } else if rng.chance(1, 3) {
        let k = rng.range(1, spec.targets.len().min(3));
        let mut ts: Vec<String> = spec.targets.iter().map(|t| t.path.clone()).collect();
        rng.shuffle(&mut ts);
        ts.truncate(k);
        opts.targets = ts;
        opts.deps = rng.chance(1, 2);
        Mode::Named
    } else {
        Mode::All
    };
    let mut script = RunScript::simple(opts);
    script.strategy = *rng.pick(&[Strategy::PlanOrder, Strategy::Reverse, Strategy::Uniform]);
    script.sched_seed = rng.next_u64();
    script.workers = Some(*rng.pick(&[1u32, 4, 16]));
    script.rand_seed = Some(rng.next_u64() % 1_000_000);
    if dangling.is_empty() && rng.chance(1, 7) {
        // the executable of the k-th spawn is open for writing when monorail execs it (ETXTBSY) and is released a
        // little later: the run may fail loudly, but a process that does start must get the documented argv once
        let k = rng.range(1, 4);
        let ms = *rng.pick(&[20u32, 120, 400]);
        script.env_actions.push(crate::rundrv::EnvAction { point: "run.spawn".into(), nth: k, act: crate::rundrv::EnvAct::BusyExec { ms } });
    }
    (RunScenario { spec, mode, script, hang_ms: default_hang_ms() }, C11Extra { argmap_files, dangling })
}

fn expected_argv(sc: &RunScenario, ex: &C11Extra, command: &str, target: &str) -> Vec<Vec<u8>> {
    let t = match sc.spec.target(target) {
        Some(t) => t,
        None => return vec![], // a process the world knows nothing about: judged elsewhere (exe/*)
    };
    let adir = t.argmaps_path.clone().unwrap_or_else(|| format!("{}/monorail/argmap", target));
    let mut v: Vec<Vec<u8>> = vec![];
    let mut add = |name: &str| {
        let p = format!("{}/{}.json", adir, name);
        if let Some((_, txt)) = ex.argmap_files.iter().find(|(f, _)| *f == p) {
            if let Ok(j) = serde_json::from_str::<Value>(txt) {
                if let Some(a) = j[command].as_array() {
                    for x in a {
                        v.push(x.as_str().unwrap_or("").as_bytes().to_vec());
                    }
                }
            }
        }
    };
    if !sc.script.opts.no_base_argmaps {
        add("base");
    }
    for m in &sc.script.opts.argmaps {
        add(m);
    }
    if !sc.script.opts.args.is_empty() && sc.script.opts.targets.len() == 1 && sc.script.opts.targets[0].trim_start_matches("./").trim_end_matches('/') == target && sc.script.opts.commands.first().map(|c| c == command).unwrap_or(false) {
        for a in &sc.script.opts.args {
            v.push(a.as_bytes().to_vec());
        }
    }
    v
}

impl Property for C11 {
    fn id(&self) -> &'static str {
        "C11"
    }
    fn count(&self, tier: Tier) -> usize {
        match tier {
            Tier::Quick => 500,
            Tier::Thorough => 10000,
        }
    }
    fn generate(&self, seed: u64, idx: usize, tier: Tier) -> Value {
        let (sc, ex) = gen_c11(seed, idx, tier);
        json!({"run": to_val(&sc), "extra": serde_json::to_value(&ex).unwrap()})
    }
    fn execute(&self, v: &Value) -> Outcome {
        let mut sc = match from_val(&v["run"]) {
            Ok(s) => s,
            Err(e) => return Outcome::skip(&e),
        };
        let ex: C11Extra = match serde_json::from_value(v["extra"].clone()) {
            Ok(e) => e,
            Err(e) => return Outcome::skip(&format!("bad extra: {}", e)),
        };
        // argmap files are ordinary files of the world
        for (p, txt) in &ex.argmap_files {
            sc.spec.files.push((p.clone(), txt.clone()));
        }
        let ctx = match execute_run(&sc, None) {
            Prepared::Skip(r) => return Outcome::skip(&r),
            Prepared::Ctx(c) => c,
        };
        let mut out = Outcome::default();
        base_trace(&ctx, &mut out);
        let tr = &ctx.trace;
        if let Some(h) = &tr.hang {
            out.advisories.push(format!("hang {}", h));
            return Outcome::skip("run_hung(other property)");
        }
        if !ex.dangling.is_empty() {
            // a definition that names a missing file: the run may report what it likes for that pair (and stop
            // there); the same-stem file in the command directory is not the command
            out.fault("definition_path_names_a_missing_file", 1);
            for (t, c) in &ex.dangling {
                if tr.helpers.iter().any(|h| h.target == *t && h.command == format!("{}__decoy", c)) {
                    out.violate("exe", "decoy_used", format!("'{}' for '{}': commands.definitions names a file that does not exist, and the file of the same stem in the command directory was executed instead", c, t));
                }
            }
            out.nontrivial = true;
            out.signature = format!("dangling|{:?}", ex.dangling);
            return out;
        }
        let busy = sc.script.env_actions.iter().any(|a| matches!(a.act, crate::rundrv::EnvAct::BusyExec { .. }));
        if busy && tr.env_actions_done > 0 {
            out.fault("executable_busy_at_exec", 1);
        }
        let doc = match tr.result_json() {
            Some(d) => d,
            None => {
                let e = tr.stderr_str();
                if e.contains("\"graph\"") {
                    return Outcome::skip("run_rejects_graph(C03 territory)");
                }
                if busy && tr.env_actions_done > 0 && (e.contains("Text file busy") || e.contains("os error 26")) {
                    // a loud failure is tolerated under this fault; whatever did start must still be right
                    out.probe("executable_busy_failed_loudly", 1);
                    for h in &tr.helpers {
                        let want = expected_argv(&sc, &ex, &h.command, &h.target);
                        if h.argv != want {
                            out.violate("argv", "different_args", format!("'{}' for '{}' received {} arguments, documented concatenation has {} (run aborted later on a busy executable)", h.command, h.target, h.argv.len(), want.len()));
                        }
                    }
                    out.nontrivial = !tr.helpers.is_empty();
                    out.signature = format!("busy-loud|{}|{}", tr.helpers.len(), sc.spec.targets.len());
                    return out;
                }
                out.violate("argv", "run_failed", format!("run produced no result: exit {:?} {}", tr.code(), e.chars().take(300).collect::<String>()));
                return out;
            }
        };
        let rg = result_groups(&doc);
        let root = std::path::PathBuf::from(String::from_utf8_lossy(&tr.helpers.first().map(|h| h.cwd.clone()).unwrap_or_default()).into_owned());
        let _ = root;
        let mut distinct_argv: BTreeSet<Vec<Vec<u8>>> = BTreeSet::new();
        let mut missing_maps = 0;
        for (c, gs) in &rg {
            for g in gs {
                for (t, r) in g {
                    let real: Vec<&CmdFile> = sc.spec.cmd_files.iter().filter(|f| f.target == *t && f.command == *c).collect();
                    let decoy_started = tr.helpers.iter().any(|h| h.target == *t && h.command == format!("{}__decoy", c));
                    if decoy_started {
                        out.violate("exe", "decoy_used", format!("'{}' for '{}': the file in the command directory was executed although commands.definitions gives an explicit path", c, t));
                    }
                    let hs = tr.helper(c, t);
                    if real.is_empty() {
                        if !hs.is_empty() || r.status != "undefined" {
                            out.violate("exe", "undefined_expected", format!("'{}' for '{}' has no resolvable executable but status is '{}' ({} processes)", c, t, r.status, hs.len()));
                        }
                        continue;
                    }
                    if hs.len() != 1 {
                        out.violate("exe", "not_resolved", format!("'{}' for '{}' should resolve to {} but {} processes started (status {})", c, t, real[0].rel, hs.len(), r.status));
                        continue;
                    }
                    let h = hs[0];
                    let want_exe = format!("{}/{}", String::from_utf8_lossy(&h.cwd).trim_end_matches(&format!("/{}", t)), real[0].rel);
                    if String::from_utf8_lossy(&h.argv0) != want_exe {
                        out.violate("exe", "wrong_file", format!("'{}' for '{}' executed {} instead of {}", c, t, String::from_utf8_lossy(&h.argv0), want_exe));
                    }
                    // cwd = <root>/<target>
                    let cwd = String::from_utf8_lossy(&h.cwd).into_owned();
                    if !cwd.ends_with(&format!("/{}", t)) || cwd.contains("/monorail-out") {
                        out.violate("cwd", "wrong_dir", format!("'{}' for '{}' ran in {}", c, t, cwd));
                    }
                    if !h.stdin_null {
                        out.advisories.push("stdin is not /dev/null".into());
                    }
                    let want = expected_argv(&sc, &ex, c, t);
                    if h.argv != want {
                        let show = |v: &Vec<Vec<u8>>| v.iter().map(|a| { let s = crate::proto::show(a); if s.len() > 40 { format!("{}..({}B)", &s[..40], a.len()) } else { s } }).collect::<Vec<_>>();
                        // classify
                        let mut sorted_a = h.argv.clone();
                        sorted_a.sort();
                        let mut sorted_b = want.clone();
                        sorted_b.sort();
                        let class = if sorted_a == sorted_b { "order" } else if h.argv.len() < want.len() { "missing_args" } else if h.argv.len() > want.len() { "extra_args" } else { "different_args" };
                        out.violate("argv", class, format!("'{}' for '{}' received argv {:?}, documented concatenation is {:?}", c, t, show(&h.argv), show(&want)));
                    }
                    distinct_argv.insert(want);
                    let tspec = match sc.spec.target(t) {
                        Some(x) => x,
                        None => continue,
                    };
                    let adir = tspec.argmaps_path.clone().unwrap_or_else(|| format!("{}/monorail/argmap", t));
                    for m in &sc.script.opts.argmaps {
                        if !ex.argmap_files.iter().any(|(f, _)| *f == format!("{}/{}.json", adir, m)) {
                            missing_maps += 1;
                        }
                    }
                }
            }
        }
        if tr.code() != Some(0) {
            out.advisories.push(format!("run exit {:?}", tr.code()));
        }
        out.nontrivial = distinct_argv.len() >= 2 && missing_maps >= 1;
        out.probe("missing_argmap_files_requested", missing_maps);
        out.signature = format!("{:?}|{:?}|{:?}|{}", distinct_argv.len(), sc.script.opts.argmaps, sc.script.opts.args.len(), sc.spec.targets.len());
        out.signature = format!("{}|{}", out.signature, crate::prng::hash_str(&format!("{:?}", distinct_argv)));
        out
    }
    fn rule(&self) -> String {
        "1-8 targets x 1-3 commands; per target: base.json present/absent/empty object, 0-3 named argmaps of which some files do not exist, custom argmaps.path / commands.path, definitions with explicit path (with a decoy of the same stem in the command directory), with empty path, or none; argument strings with spaces, quotes, $, *, newline, empty string, non-ASCII, 4 KiB; --no-base-argmaps; --args in the single command + single target form; several members spawned concurrently from one shared argmap table; in one scenario of seven the executable of the k-th spawn is open for writing by another process when monorail execs it (ETXTBSY) and is released 20/120/400 ms later: the run may fail loudly, a process that does start must receive the documented argv exactly once. Oracle: argv / cwd / executed file as received by the child. The deciding dimension is mostly the configuration of files on disk, observed across the process boundary. Non-trivial = >= 2 different expected argument lists in the run and >= 1 requested argmap file missing; distinct = hash of the expected argument lists".into()
    }
    fn components(&self) -> Value {
        components()
    }
    fn assumptions(&self) -> Vec<String> {
        vec!["argv[0] as received equals the resolved command path (monorail passes the path to exec unchanged)".into()]
    }
}
