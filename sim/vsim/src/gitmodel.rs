//! R-git: a small model of a git repository (commits, index, working tree, two ignore pattern
//! shapes) plus the operation language of the generated histories and its executor.
use crate::prng::Rng;
use crate::world::{sha256_hex, World};
use serde::{Deserialize, Serialize};
use std::collections::{BTreeMap, BTreeSet};

pub type Tree = BTreeMap<String, String>;

#[derive(Serialize, Deserialize, Clone, Debug, PartialEq)]
pub enum GitOp {
    Create { path: String },
    Edit { path: String },
    /// as Edit, but the file keeps an old modification time (cp -p, rsync -t, tar extraction, mv of an older file)
    EditOld { path: String },
    /// the file is overwritten in place with new content of exactly the same size, and its modification time is put
    /// back to what it was (touch -r, cp -p, rsync -t, an editor that preserves timestamps): only the bytes, the inode
    /// change time and the checksum tell
    EditSameStat { path: String },
    Delete { path: String },
    /// the file becomes empty (0 bytes): a content of its own, not a deletion
    Empty { path: String },
    /// a symbolic link to an existing directory (git sees one file-like entry; opening it yields a directory)
    LinkDir { path: String, to: String },
    /// the file is rewritten with the bytes it already has (only its stat data changes)
    RewriteSame { path: String },
    Move { from: String, to: String, git: bool, edit: bool },
    Stage { path: String },
    StageAll,
    Unstage { path: String },
    Commit { all: bool },
    /// git commit --amend: the new commit replaces HEAD, so the previous HEAD (perhaps the checkpoint's commit) is
    /// no longer an ancestor of HEAD; trees and therefore every expected change set are as after a plain commit
    Amend { all: bool },
    WriteIgnored { path: String },
    /// create n files with non-ASCII names in one directory (a listing longer than one pipe buffer)
    Bulk { dir: String, n: usize, tag: usize },
    /// git checkout <commit #n> -- <path>: working tree and index take the committed content
    Checkout { path: String, commit: usize },
    /// checkpoint update [--id <commit #n> | --id <raw>] [--pending]
    CpUpdate { id: Option<usize>, raw_id: Option<String>, pending: bool },
    CpShow,
    CpDelete,
    OutDelete,
    /// `out delete --all` while every removal below <out>/tracking fails with EPERM (an immutable file, a read-only
    /// bind mount): failing loudly is fine; saying "done" while the checkpoint is still there is not
    OutDeleteFaulty,
    /// analyze --changes [--begin #n] [--end #n]
    Analyze { begin: Option<usize>, end: Option<usize> },
    /// run one command for the changed targets
    Run,
    /// the same with --begin <commit #n>
    RunFrom { begin: usize },
    /// the file's line terminators flip between LF and CRLF, nothing else changes (content it never had)
    Crlf { path: String },
    /// git pack-refs --all (branch heads move from loose files into packed-refs; no content changes)
    PackRefs,
    /// checkpoint update without --id while HEAD names a branch that has no commit yet (a fresh repository, an
    /// orphan branch): there is no commit to record, the update must fail and leave the store alone
    CpUpdateUnborn { pending: bool },
    /// checkpoint update --pending [--id #n] while an untracked unix socket lies in a target directory (it
    /// cannot be opened, so its checksum cannot be taken): the update fails and must leave the store alone;
    /// the socket is removed again afterwards
    CpUpdateUnreadable { id: Option<usize> },
}

#[derive(Clone, Debug, Default)]
pub struct RGit {
    pub commits: Vec<Tree>,
    pub index: Tree,
    pub wt: Tree,
    pub ignore_log: bool,
    pub ignore_build: bool,
    counter: u64,
}

impl RGit {
    pub fn new(initial: &Tree, ignore_log: bool, ignore_build: bool) -> RGit {
        RGit { commits: vec![initial.clone()], index: initial.clone(), wt: initial.clone(), ignore_log, ignore_build, counter: 0 }
    }
    pub fn head(&self) -> &Tree {
        self.commits.last().unwrap()
    }
    pub fn fresh(&mut self) -> String {
        self.counter += 1;
        format!("content {}\n", self.counter)
    }
    pub fn is_ignored(&self, p: &str) -> bool {
        if p.starts_with("monorail-out/") || p.starts_with(".ctl/") {
            return true;
        }
        let comps: Vec<&str> = p.split('/').collect();
        if self.ignore_log && comps.last().map(|b| b.ends_with(".log")).unwrap_or(false) {
            return true;
        }
        if self.ignore_build && comps[..comps.len() - 1].iter().any(|c| *c == "build") {
            return true;
        }
        false
    }
    /// apply the repository effect of an op to the model (checkpoint / analyze ops have none)
    pub fn apply(&mut self, op: &GitOp) {
        match op {
            GitOp::Create { path } | GitOp::Edit { path } | GitOp::EditOld { path } | GitOp::WriteIgnored { path } => {
                let c = self.fresh();
                self.wt.insert(path.clone(), c);
            }
            GitOp::EditSameStat { path } => {
                self.counter += 1;
                let c = match self.wt.get(path) {
                    Some(old) if !old.starts_with("symlink ->") && old.len() >= 12 => {
                        let tag = format!("k{}", self.counter);
                        format!("{}{}\n", tag, "x".repeat(old.len() - tag.len() - 1))
                    }
                    _ => format!("content {}\n", self.counter),
                };
                self.wt.insert(path.clone(), c);
            }
            GitOp::Delete { path } => {
                self.wt.remove(path);
            }
            GitOp::Empty { path } => {
                if self.wt.contains_key(path) {
                    self.wt.insert(path.clone(), String::new());
                }
            }
            GitOp::RewriteSame { .. } => {}
            GitOp::Crlf { path } => {
                if let Some(c) = self.wt.get(path).cloned() {
                    let n = if c.contains("\r\n") { c.replace("\r\n", "\n") } else { c.replace('\n', "\r\n") };
                    self.wt.insert(path.clone(), n);
                }
            }
            GitOp::LinkDir { path, to } => {
                self.wt.insert(path.clone(), format!("symlink -> {}", to));
            }
            GitOp::Move { from, to, git, edit } => {
                if let Some(c) = self.wt.remove(from) {
                    if *git {
                        // git mv: the index entry moves with its staged content
                        if let Some(ic) = self.index.remove(from) {
                            self.index.insert(to.clone(), ic);
                        }
                    }
                    let c = if *edit { self.fresh() } else { c };
                    self.wt.insert(to.clone(), c);
                }
            }
            GitOp::Stage { path } => match self.wt.get(path) {
                Some(c) => {
                    if !self.is_ignored(path) || self.index.contains_key(path) {
                        self.index.insert(path.clone(), c.clone());
                    }
                }
                None => {
                    self.index.remove(path);
                }
            },
            GitOp::StageAll => {
                let tracked: Vec<String> = self.index.keys().cloned().collect();
                for p in tracked {
                    if !self.wt.contains_key(&p) {
                        self.index.remove(&p);
                    }
                }
                let wt: Vec<(String, String)> = self.wt.iter().map(|(a, b)| (a.clone(), b.clone())).collect();
                for (p, c) in wt {
                    if self.index.contains_key(&p) || !self.is_ignored(&p) {
                        self.index.insert(p, c);
                    }
                }
            }
            GitOp::Unstage { path } => match self.head().get(path).cloned() {
                Some(c) => {
                    self.index.insert(path.clone(), c);
                }
                None => {
                    self.index.remove(path);
                }
            },
            GitOp::Bulk { dir, n, tag } => {
                for i in 0..*n {
                    // tags from 20000 on: every file of the bulk is empty (one content, one checksum: a pending set
                    // that compresses far better than one of distinct files)
                    let c = if *tag >= 20000 { String::new() } else { self.fresh() };
                    self.wt.insert(bulk_name(dir, *tag, i), c);
                }
            }
            GitOp::Checkout { path, commit } => {
                let c = (*commit).min(self.commits.len() - 1);
                if let Some(content) = self.commits[c].get(path).cloned() {
                    self.wt.insert(path.clone(), content.clone());
                    self.index.insert(path.clone(), content);
                }
            }
            GitOp::Commit { all } | GitOp::Amend { all } => {
                if *all {
                    let tracked: Vec<String> = self.index.keys().cloned().collect();
                    for p in tracked {
                        match self.wt.get(&p) {
                            Some(c) => {
                                self.index.insert(p, c.clone());
                            }
                            None => {
                                self.index.remove(&p);
                            }
                        }
                    }
                }
                self.commits.push(self.index.clone());
            }
            _ => {}
        }
    }
    /// specification of the tracked + untracked change set relative to commit `base` (working tree side)
    pub fn changes_vs_worktree(&self, base: &Tree) -> BTreeSet<String> {
        let mut out = BTreeSet::new();
        for p in base.keys().chain(self.wt.keys()) {
            let untracked = !self.index.contains_key(p) && !base.contains_key(p);
            if untracked && self.is_ignored(p) {
                continue;
            }
            if base.get(p) != self.wt.get(p) {
                out.insert(p.clone());
            }
        }
        out
    }
    pub fn untracked(&self) -> BTreeSet<String> {
        self.wt.keys().filter(|p| !self.index.contains_key(*p) && !self.is_ignored(p)).cloned().collect()
    }
    pub fn changes_between(&self, a: &Tree, b: &Tree) -> BTreeSet<String> {
        let mut out = BTreeSet::new();
        for p in a.keys().chain(b.keys()) {
            if a.get(p) != b.get(p) {
                out.insert(p.clone());
            }
        }
        out
    }
    pub fn dirt_kinds(&self) -> BTreeSet<&'static str> {
        let mut k = BTreeSet::new();
        let head = self.head();
        for (p, c) in &self.index {
            if head.get(p) != Some(c) {
                k.insert("staged");
            }
            match self.wt.get(p) {
                Some(w) if w != c => {
                    k.insert("unstaged");
                }
                None => {
                    k.insert("deleted");
                }
                _ => {}
            }
        }
        for p in head.keys() {
            if !self.index.contains_key(p) {
                k.insert("staged_delete");
            }
        }
        if !self.untracked().is_empty() {
            k.insert("untracked");
        }
        k
    }
}

pub fn bulk_name(dir: &str, tag: usize, i: usize) -> String {
    format!("{}/bulk{}/данные-{:04}-файл.txt", dir, tag, i)
}

pub const NAME_POOL: [&str; 14] = [
    "a.txt", "ends with a blank.txt ", "sub/c.txt", "with space.txt", "sub dir/d e.txt", "ünï.txt", "日本語.txt", "quo\"te.txt", "back\\slash.txt", "tab\there.txt", "deep/er/f.txt", "émoji-✓.md", "x.log", "build/out.bin",
];

pub fn name_class(p: &str) -> &'static str {
    if p.chars().any(|c| c == '"' || c == '\\' || c == '\t') {
        "ascii_special"
    } else if !p.is_ascii() {
        "non_ascii"
    } else if p.contains(' ') {
        "space"
    } else {
        "plain"
    }
}

pub struct HistGen<'a> {
    pub rng: &'a mut Rng,
    pub model: RGit,
    pub dirs: Vec<String>,
    pub protected: BTreeSet<String>,
    pub long_names: bool,
    /// at most one bulk creation per history
    pub bulk_left: usize,
    /// smallest size of a bulk (200; 2000 for listings well beyond one pipe buffer)
    pub bulk_base: usize,
    /// at most this many files larger than 2 MiB per history
    pub big_left: usize,
    /// emptying files repeats a content (""), which C07's "content it never had" clause must avoid
    pub allow_empty: bool,
    /// at most this many symbolic links to directories per history (never touched again once created)
    pub links_left: usize,
    n_created: usize,
}

impl<'a> HistGen<'a> {
    pub fn new(rng: &'a mut Rng, model: RGit, dirs: Vec<String>, protected: BTreeSet<String>) -> Self {
        HistGen { rng, model, dirs, protected, long_names: false, bulk_left: 0, bulk_base: 200, big_left: 0, allow_empty: false, links_left: 0, n_created: 0 }
    }
    fn new_path(&mut self, ignored: bool) -> String {
        let d = self.dirs[self.rng.below(self.dirs.len())].clone();
        self.n_created += 1;
        if ignored {
            return if self.model.ignore_log && (self.rng.chance(1, 2) || !self.model.ignore_build) { format!("{}/gen{}.log", d, self.n_created) } else { format!("{}/build/o{}.bin", d, self.n_created) };
        }
        if self.big_left > 0 && self.rng.chance(1, 3) {
            self.big_left -= 1;
            // the size class is part of the name: s0 = 1.1 MiB, s1 = 2.5 MiB, s2 = 9 MiB (files that take
            // visibly different times to read and hash)
            return format!("{}/{}data.s{}.big", d, self.n_created, self.rng.below(3));
        }
        let base = if self.long_names && self.rng.chance(1, 12) { format!("{}-{}.txt", "L".repeat(200), self.n_created) } else { NAME_POOL[self.rng.below(12)].to_string() };
        // unique by construction: prefix the counter into the last component
        let (dir, file) = match base.rsplit_once('/') {
            Some((a, b)) => (format!("{}/{}", d, a), b.to_string()),
            None => (d, base),
        };
        format!("{}/{}{}", dir, self.n_created, file)
    }
    fn existing(&mut self, from: &BTreeSet<String>) -> Option<String> {
        let v: Vec<&String> = from.iter().filter(|p| !self.protected.contains(*p)).collect();
        if v.is_empty() {
            None
        } else {
            Some(v[self.rng.below(v.len())].clone())
        }
    }
    /// one repository-mutating op, applied to the model
    pub fn repo_op(&mut self) -> GitOp {
        for _ in 0..20 {
            let wt: BTreeSet<String> = self.model.wt.keys().filter(|p| !self.model.is_ignored(p)).cloned().collect();
            let tracked_wt: BTreeSet<String> = wt.iter().filter(|p| self.model.index.contains_key(*p)).cloned().collect();
            if self.links_left > 0 && self.rng.chance(1, 5) {
                self.links_left -= 1;
                self.n_created += 1;
                let d = self.dirs[self.rng.below(self.dirs.len())].clone();
                let path = format!("{}/{}dirlink", d, self.n_created);
                self.protected.insert(path.clone());
                let op = GitOp::LinkDir { path, to: self.dirs[self.rng.below(self.dirs.len())].clone() };
                self.model.apply(&op);
                return op;
            }
            if self.bulk_left > 0 && self.rng.chance(1, 4) {
                self.bulk_left -= 1;
                self.n_created += 1;
                let op = GitOp::Bulk { dir: self.dirs[self.rng.below(self.dirs.len())].clone(), n: self.bulk_base + self.rng.below(250 + self.bulk_base / 4), tag: self.n_created };
                self.model.apply(&op);
                return op;
            }
            let op = match self.rng.below(20) {
                0..=3 => {
                    // one creation in ten is the case twin of an existing file (`Makefile` next to `makefile`)
                    let twin = if self.rng.chance(1, 10) {
                        let cands: Vec<String> = wt.iter().filter(|p| !p.ends_with(".big") && !p.ends_with("dirlink") && !self.protected.contains(*p)).cloned().collect();
                        if cands.is_empty() {
                            None
                        } else {
                            let p = cands[self.rng.below(cands.len())].clone();
                            let (d, f) = p.rsplit_once('/').map(|(a, b)| (a.to_string(), b.to_string())).unwrap_or((String::new(), p.clone()));
                            let swapped: String = f.chars().map(|c| if c.is_ascii_lowercase() { c.to_ascii_uppercase() } else if c.is_ascii_uppercase() { c.to_ascii_lowercase() } else { c }).collect();
                            let t = if d.is_empty() { swapped.clone() } else { format!("{}/{}", d, swapped) };
                            if swapped != f && !self.model.wt.contains_key(&t) && !self.model.index.contains_key(&t) && !self.model.head().contains_key(&t) { Some(t) } else { None }
                        }
                    } else {
                        None
                    };
                    match twin {
                        Some(t) => Some(GitOp::Create { path: t }),
                        None => Some(GitOp::Create { path: self.new_path(false) }),
                    }
                }
                4..=6 => {
                    let kind = self.rng.below(10);
                    let plain: BTreeSet<String> = wt.iter().filter(|p| !p.ends_with("dirlink")).cloned().collect();
                    match kind {
                        0 | 1 => self.existing(&wt).map(|p| GitOp::EditOld { path: p }),
                        2 => self.existing(&plain).map(|p| GitOp::Crlf { path: p }),
                        _ => self.existing(&wt).map(|p| GitOp::Edit { path: p }),
                    }
                }
                7 => self.existing(&wt).map(|p| GitOp::Delete { path: p }),
                8 => {
                    let small: BTreeSet<String> = wt.iter().filter(|p| !p.ends_with(".big")).cloned().collect();
                    match self.rng.below(3) {
                        0 => self.existing(&wt).map(|p| GitOp::Delete { path: p }),
                        1 if self.allow_empty => self.existing(&small).map(|p| GitOp::Empty { path: p }),
                        _ => self.existing(&tracked_wt).map(|p| GitOp::RewriteSame { path: p }),
                    }
                }
                9 | 10 => {
                    let git = self.rng.chance(1, 2);
                    let src = if git { self.existing(&tracked_wt) } else { self.existing(&wt) };
                    let to = self.new_path(false);
                    let edit = self.rng.chance(1, 3);
                    src.map(|from| {
                        // the bytes on disk are a function of (name class, model content): a move keeps the class
                        let class = |p: &str| [".s0.big", ".s1.big", ".s2.big", ".big"].iter().find(|x| p.ends_with(**x)).map(|x| x.to_string());
                        let to = match (class(&from), class(&to)) {
                            (a, b) if a == b => to,
                            (Some(a), Some(b)) => format!("{}{}", to.trim_end_matches(b.as_str()), a),
                            (Some(a), None) => format!("{}{}", to, a),
                            (None, Some(b)) => format!("{}.dat", to.trim_end_matches(b.as_str())),
                            (None, None) => to,
                        };
                        GitOp::Move { from, to, git, edit }
                    })
                }
                11 | 12 => {
                    let mut cands: BTreeSet<String> = wt.clone();
                    cands.extend(self.model.index.keys().cloned());
                    self.existing(&cands).map(|p| GitOp::Stage { path: p })
                }
                13 | 14 => Some(GitOp::StageAll),
                15 => {
                    let idx: BTreeSet<String> = self.model.index.keys().cloned().collect();
                    self.existing(&idx).map(|p| GitOp::Unstage { path: p })
                }
                16 | 17 => {
                    if self.rng.chance(1, 8) {
                        Some(GitOp::PackRefs)
                    } else {
                        Some(GitOp::Commit { all: self.rng.chance(1, 2) })
                    }
                }
                19 => {
                    // restore a path from any commit that has it
                    let nc = self.model.commits.len();
                    let c = self.rng.below(nc);
                    let keys: BTreeSet<String> = self.model.commits[c].keys().filter(|p| !self.protected.contains(*p)).cloned().collect();
                    self.existing(&keys).map(|p| GitOp::Checkout { path: p, commit: c })
                }
                18 => {
                    if self.model.ignore_log || self.model.ignore_build {
                        Some(GitOp::WriteIgnored { path: self.new_path(true) })
                    } else {
                        None
                    }
                }
                _ => Some(GitOp::Create { path: self.new_path(false) }),
            };
            if let Some(op) = op {
                self.model.apply(&op);
                return op;
            }
        }
        let op = GitOp::Create { path: self.new_path(false) };
        self.model.apply(&op);
        op
    }
}

/// Execute the repository effect of an op on the real repository. The content written is the
/// model's (the caller applies the op to the model first and passes the resulting tree).
pub fn exec_repo_op(w: &mut World, op: &GitOp, model_after: &RGit) -> Result<(), String> {
    match op {
        GitOp::Create { path } | GitOp::Edit { path } | GitOp::EditOld { path } | GitOp::WriteIgnored { path } => {
            let c = model_after.wt.get(path).ok_or("model lost path")?;
            write_managed(w, path, c)?;
            if let GitOp::EditOld { .. } = op {
                // old, but never the same instant twice for one size (git's stat cache cannot tell such
                // files apart; that is git's documented limit, not a subject here)
                set_mtime(&w.root.join(path), 1_000_000_000 + (crate::prng::hash_str(c) % 100_000_000) as i64)?;
            }
            Ok(())
        }
        GitOp::EditSameStat { path } => {
            let c = model_after.wt.get(path).ok_or("model lost path")?;
            let p = w.root.join(path);
            if std::fs::symlink_metadata(&p).map(|m| m.file_type().is_file()).unwrap_or(false) {
                // the file has carried an old timestamp for a while and git's stat cache knows it (as after any
                // `git status`): the cached entry is then not "racily clean", i.e. git has no reason to look at
                // the content as long as the stat data it compares still match
                set_mtime(&p, 1_100_000_000 + (crate::prng::hash_str(path) % 100_000_000) as i64)?;
                let _ = w.git_raw(&["update-index", "-q", "--refresh"]);
                // git compares the inode change time in whole seconds: an edit within the same second as the refresh
                // is invisible even to an unmodified git (its documented limit), so the edit waits for the next second
                let ms = std::time::SystemTime::now().duration_since(std::time::UNIX_EPOCH).map(|d| d.subsec_millis()).unwrap_or(0) as u64;
                std::thread::sleep(std::time::Duration::from_millis(1000 - ms.min(999) + 30));
            }
            let before = std::fs::symlink_metadata(&p).ok().filter(|m| m.file_type().is_file());
            write_managed(w, path, c)?;
            if let Some(m) = before {
                use std::os::unix::fs::MetadataExt;
                if m.len() == std::fs::metadata(&p).map(|x| x.len()).unwrap_or(0) {
                    set_mtime_ns(&p, m.mtime(), m.mtime_nsec())?;
                }
            }
            Ok(())
        }
        GitOp::Delete { path } => std::fs::remove_file(w.root.join(path)).map_err(|e| format!("rm {}: {}", path, e)),
        GitOp::Crlf { path } => match model_after.wt.get(path) {
            Some(c) => write_managed(w, path, c),
            None => Ok(()),
        },
        GitOp::PackRefs => w.git(&["pack-refs", "--all"]).map(|_| ()),
        GitOp::Empty { path } => {
            if model_after.wt.contains_key(path) {
                w.write_bytes(path, b"")?;
            }
            Ok(())
        }
        GitOp::LinkDir { path, to } => {
            let p = w.root.join(path);
            if let Some(d) = p.parent() {
                std::fs::create_dir_all(d).map_err(|e| e.to_string())?;
            }
            std::os::unix::fs::symlink(w.root.join(to), &p).map_err(|e| format!("symlink {}: {}", path, e))
        }
        GitOp::RewriteSame { path } => {
            let p = w.root.join(path);
            if let Ok(b) = std::fs::read(&p) {
                // a different inode and fresh timestamps, identical bytes
                let _ = std::fs::remove_file(&p);
                std::fs::write(&p, b).map_err(|e| e.to_string())?;
            }
            Ok(())
        }
        GitOp::Move { from, to, git, edit } => {
            if let Some(d) = w.root.join(to).parent() {
                std::fs::create_dir_all(d).map_err(|e| e.to_string())?;
            }
            if *git {
                w.git(&["mv", "--", from, to])?;
            } else {
                std::fs::rename(w.root.join(from), w.root.join(to)).map_err(|e| format!("mv: {}", e))?;
            }
            // the bytes on disk are a function of (path, model content): a file that moves into or out of a
            // `.big` name is rewritten in the form of its new name
            if *edit || from.ends_with(".big") != to.ends_with(".big") {
                let c = model_after.wt.get(to).ok_or("model lost path")?;
                write_managed(w, to, c)?;
            }
            Ok(())
        }
        GitOp::Stage { path } => {
            // staging an ignored untracked path is refused by git; the model leaves it alone too
            let _ = w.git_raw(&["add", "--", path])?;
            Ok(())
        }
        GitOp::StageAll => w.git(&["add", "-A"]).map(|_| ()),
        GitOp::Unstage { path } => {
            let _ = w.git_raw(&["reset", "-q", "--", path])?;
            Ok(())
        }
        GitOp::Bulk { dir, n, tag } => {
            for i in 0..*n {
                let p = bulk_name(dir, *tag, i);
                let c = model_after.wt.get(&p).ok_or("model lost path")?;
                w.write_file(&p, c)?;
            }
            Ok(())
        }
        GitOp::Checkout { path, commit } => {
            let sha = commit_order(w)?;
            let shas: Vec<&str> = sha.lines().collect();
            let c = (*commit).min(shas.len().saturating_sub(1));
            // only when that commit has the path (the model does nothing otherwise)
            let has = w.git_raw(&["cat-file", "-e", &format!("{}:{}", shas[c], path)])?.code == Some(0);
            if has {
                w.git(&["checkout", "-q", shas[c], "--", path])?;
            }
            Ok(())
        }
        GitOp::Commit { all } | GitOp::Amend { all } => {
            // commit #n of the model is the n-th commit ever made, whether or not it is still an ancestor of HEAD
            let mut order = commit_order(w)?;
            let mut args = vec!["commit", "-q", "--allow-empty"];
            if matches!(op, GitOp::Amend { .. }) {
                args.push("--amend");
            }
            if *all {
                args.push("-a");
            }
            args.extend_from_slice(&["-m", "c"]);
            w.git(&args)?;
            if !order.is_empty() && !order.ends_with('\n') {
                order.push('\n');
            }
            order.push_str(w.git(&["rev-parse", "HEAD"])?.trim());
            order.push('\n');
            let _ = std::fs::create_dir_all(w.root.join(".ctl"));
            std::fs::write(w.root.join(".ctl/commit-order"), order).map_err(|e| e.to_string())
        }
        _ => Ok(()),
    }
}

/// The commits of the world in the order they were made (one id per line): the recorded list once a commit or amend
/// went through `exec_repo_op`, the ancestry of HEAD before that.
fn commit_order(w: &mut World) -> Result<String, String> {
    match std::fs::read_to_string(w.root.join(".ctl/commit-order")) {
        Ok(s) => Ok(s),
        Err(_) => w.git(&["rev-list", "--reverse", "HEAD"]),
    }
}

/// Files whose name ends in ".big" carry a fixed prefix of 1.1 / 2.5 / 9 MiB in front of the model's content, so
/// that every edit changes only bytes beyond the first couple of MiB of the file.
pub fn write_managed(w: &World, rel: &str, content: &str) -> Result<(), String> {
    if rel.ends_with(".big") {
        let size = if rel.ends_with(".s0.big") { 1_153_434 } else if rel.ends_with(".s2.big") { 9_437_184 } else { 2_621_440 };
        let mut v = Vec::with_capacity(size + 100_000);
        let line = b"0123456789abcdef0123456789abcdef0123456789abcdef0123456789abcde\n";
        while v.len() < size {
            v.extend_from_slice(line);
        }
        v.extend_from_slice(content.as_bytes());
        w.write_bytes(rel, &v)
    } else {
        w.write_file(rel, content)
    }
}

pub fn set_old_mtime(p: &std::path::Path) -> Result<(), String> {
    set_mtime(p, 1_000_000_000)
}

pub fn set_mtime_ns(p: &std::path::Path, secs: i64, nsec: i64) -> Result<(), String> {
    use std::os::unix::ffi::OsStrExt;
    let c = std::ffi::CString::new(p.as_os_str().as_bytes()).map_err(|e| e.to_string())?;
    let t = libc::timespec { tv_sec: secs, tv_nsec: nsec };
    let times = [t, t];
    let r = unsafe { libc::utimensat(libc::AT_FDCWD, c.as_ptr(), times.as_ptr(), 0) };
    if r != 0 {
        return Err(format!("utimensat {}", p.display()));
    }
    Ok(())
}

pub fn set_mtime(p: &std::path::Path, secs: i64) -> Result<(), String> {
    use std::os::unix::ffi::OsStrExt;
    let c = std::ffi::CString::new(p.as_os_str().as_bytes()).map_err(|e| e.to_string())?;
    let t = libc::timespec { tv_sec: secs, tv_nsec: 0 };
    let times = [t, t];
    let r = unsafe { libc::utimensat(libc::AT_FDCWD, c.as_ptr(), times.as_ptr(), 0) };
    if r != 0 {
        return Err(format!("utimensat {}", p.display()));
    }
    Ok(())
}

pub fn split_z(b: &[u8]) -> BTreeSet<String> {
    b.split(|c| *c == 0).filter(|s| !s.is_empty()).map(|s| String::from_utf8_lossy(s).into_owned()).collect()
}

/// What raw git says: (tracked difference of `base` against the working tree or `end`, untracked)
pub fn raw_git_changes(w: &mut World, base: &str, end: Option<&str>) -> Result<(BTreeSet<String>, BTreeSet<String>), String> {
    let mut args = vec!["diff", "--no-renames", "-z", "--name-only", base];
    if let Some(e) = end {
        args.push(e);
    }
    let d = w.git_raw(&args)?;
    if d.code != Some(0) {
        return Err(format!("git diff failed: {}", d.err_str()));
    }
    let o = w.git_raw(&["ls-files", "-z", "--others", "--exclude-standard"])?;
    if o.code != Some(0) {
        return Err(format!("git ls-files failed: {}", o.err_str()));
    }
    Ok((split_z(&d.stdout), split_z(&o.stdout)))
}

pub fn current_sha(w: &World, rel: &str) -> String {
    match std::fs::read(w.root.join(rel)) {
        Ok(b) => sha256_hex(&b),
        Err(_) => String::new(),
    }
}
