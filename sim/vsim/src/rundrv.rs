//! Generic driver of one controlled `monorail run`: every child is a parked vhelper, every
//! bookkeeping step of monorail is a parked point, and a seeded policy decides who moves next.
use crate::ctl::{Ev, Point, ProcExit};
use crate::prng::Rng;
use crate::proto::{hex, show, unhex};
use crate::world::World;
use serde::{Deserialize, Serialize};
use std::collections::VecDeque;
use std::os::unix::ffi::OsStrExt;
use std::time::Duration;

#[derive(Serialize, Deserialize, Clone, Debug, Default, PartialEq)]
pub struct RunOpts {
    #[serde(default)]
    pub commands: Vec<String>,
    #[serde(default)]
    pub sequences: Vec<String>,
    #[serde(default)]
    pub targets: Vec<String>,
    #[serde(default)]
    pub deps: bool,
    #[serde(default)]
    pub fail_on_undefined: bool,
    #[serde(default)]
    pub argmaps: Vec<String>,
    #[serde(default)]
    pub args: Vec<String>,
    #[serde(default)]
    pub no_base_argmaps: bool,
    #[serde(default)]
    pub begin: Option<String>,
    #[serde(default)]
    pub end: Option<String>,
    /// `--args` is written before the other options (`run -c build -t app --args baz --argmaps ci`, as in the
    /// README) instead of last
    #[serde(default)]
    pub args_first: bool,
}
impl RunOpts {
    pub fn to_args(&self) -> Vec<String> {
        let mut a = vec!["run".to_string()];
        if !self.sequences.is_empty() {
            a.push("-s".into());
            a.extend(self.sequences.iter().cloned());
        }
        if !self.commands.is_empty() {
            a.push("-c".into());
            a.extend(self.commands.iter().cloned());
        }
        if !self.targets.is_empty() {
            a.push("-t".into());
            a.extend(self.targets.iter().cloned());
        }
        if !self.args.is_empty() && self.args_first {
            a.push("--args".into());
            a.extend(self.args.iter().cloned());
        }
        if self.deps {
            a.push("--deps".into());
        }
        if self.fail_on_undefined {
            a.push("--fail-on-undefined".into());
        }
        if self.no_base_argmaps {
            a.push("--no-base-argmaps".into());
        }
        if !self.argmaps.is_empty() {
            a.push("--argmaps".into());
            a.extend(self.argmaps.iter().cloned());
        }
        if let Some(b) = &self.begin {
            a.push("--begin".into());
            a.push(b.clone());
        }
        if let Some(e) = &self.end {
            a.push("--end".into());
            a.push(e.clone());
        }
        if !self.args.is_empty() && !self.args_first {
            // last
            a.push("--args".into());
            a.extend(self.args.iter().cloned());
        }
        a
    }
}

#[derive(Serialize, Deserialize, Clone, Debug, PartialEq)]
pub struct OutStep {
    pub fd: u8,
    /// hex of the bytes to write
    pub hex: String,
    /// real pause (ms) the controller takes before this step; 0 almost always
    #[serde(default)]
    pub pause_ms: u32,
    /// instead of writing, the child closes this descriptor (it may go on using the other one)
    #[serde(default)]
    pub close: bool,
}
#[derive(Serialize, Deserialize, Clone, Debug, PartialEq)]
pub struct Behav {
    pub command: String,
    pub target: String,
    #[serde(default)]
    pub outs: Vec<OutStep>,
    pub code: i32,
    /// real time (ms) the child stays alive and silent before it is told to exit; 0 almost always.
    /// Timers inside monorail run on the real clock in this engine, so "a child much slower than its
    /// dependents" has to be lived through.
    #[serde(default)]
    pub exit_pause_ms: u32,
    /// the child exits the moment it has started, while monorail may still be starting its siblings
    #[serde(default)]
    pub early_exit: bool,
    /// before it exits, the child leaves a background process behind that keeps its stdout and stderr open
    /// for this long (ms)
    #[serde(default)]
    pub hold_pipes_ms: u32,
    /// what the command writes when it is executed a second time in the same run (a command named twice in the
    /// documented order); empty = the same as the first time
    #[serde(default)]
    pub outs_again: Vec<OutStep>,
}

#[derive(Serialize, Deserialize, Clone, Copy, Debug, PartialEq)]
pub enum Strategy {
    /// answer monorail at once; release helpers in start order
    PlanOrder,
    /// answer monorail at once; release helpers in reverse start order
    Reverse,
    /// answer monorail at once; helpers ordered by the scenario's priority table (dependencies last)
    Prio,
    /// every enabled move equally likely
    Uniform,
    /// monorail is left parked at its points as long as anything else can move
    HoldM,
    /// one member of each group is held back until every other member is done and reported
    Straggler,
    /// answer monorail at once; the releasable helpers take one step each, in turn
    RoundRobin,
    /// answer monorail at once; every helper first writes all its output (in turn); then the helpers
    /// scripted to fail exit, while the others are still running; then the rest
    OutputThenFailures,
}

#[derive(Serialize, Deserialize, Clone, Debug, PartialEq)]
pub enum Kill {
    /// SIGKILL monorail when the nth (1-based) occurrence of the named point arrives
    AtPoint { name: String, nth: usize },
    /// SIGKILL monorail before the nth (1-based) decision step
    AtStep { n: usize },
}

#[derive(Serialize, Deserialize, Clone, Debug, PartialEq)]
pub enum LTrigger {
    /// when the nth (1-based) occurrence of the named point arrives (before it is answered)
    AtPoint { name: String, nth: usize },
    /// after the nth acknowledged OUT instruction of the run
    AfterOut { n: usize },
}
#[derive(Serialize, Deserialize, Clone, Copy, Debug, PartialEq)]
pub enum LAction {
    Kill,
    Stop,
    Cont,
    /// SIGSTOP now, SIGCONT after this much real time (a timer thread sends it, so the controller may
    /// itself be blocked on a child whose pipe has filled up behind the stalled listener)
    StopFor { ms: u32 },
    /// SIGKILL, and a new `log tail` with the same arguments is listening on the same port before the run
    /// takes its next step (somebody restarted the tail window)
    Restart,
}
#[derive(Serialize, Deserialize, Clone, Debug, PartialEq)]
pub struct LFault {
    pub at: LTrigger,
    pub action: LAction,
}

/// Something the environment does to the work tree while monorail is parked at a point (another
/// process, or an earlier step of the same run, changing files under a run in progress).
#[derive(Serialize, Deserialize, Clone, Debug, PartialEq)]
pub enum EnvAct {
    Chmod { rel: String, mode: u32 },
    Write { rel: String, content: String },
    Remove { rel: String },
    /// a command file that has been a plain, non-executable file since before the run started becomes
    /// executable (it is replaced by the helper): whoever prepares the world downgrades the file first
    MakeHelper { rel: String },
    /// the executable about to be started (the command file of the `run.spawn` point at which this fires) is
    /// open for writing by another process for `ms` of real time from now on: exec fails with ETXTBSY until it
    /// is released (an editor, a generator, an earlier command still writing the script)
    BusyExec { ms: u32 },
}
#[derive(Serialize, Deserialize, Clone, Debug, PartialEq)]
pub struct EnvAction {
    /// when the nth (1-based) occurrence of the named point arrives, before it is answered
    pub point: String,
    pub nth: usize,
    pub act: EnvAct,
}

#[derive(Serialize, Deserialize, Clone, Debug, PartialEq)]
pub struct RunScript {
    pub opts: RunOpts,
    #[serde(default)]
    pub behav: Vec<Behav>,
    pub strategy: Strategy,
    pub sched_seed: u64,
    /// target -> priority (Strategy::Prio releases lower numbers first)
    #[serde(default)]
    pub prio: Vec<(String, i64)>,
    /// answer UNTIL (wait until the compressor threads are gone) at the nth (1-based, >= 2) shutdown
    /// point of every target group that has that many
    #[serde(default)]
    pub until_at: Option<usize>,
    #[serde(default)]
    pub kill: Option<Kill>,
    #[serde(default)]
    pub workers: Option<u32>,
    #[serde(default)]
    pub flush_ms: Option<u64>,
    /// seed of the getrandom() seam (HashSet order of -t targets, select! seeds of the main thread)
    #[serde(default)]
    pub rand_seed: Option<u64>,
    /// FSFAULT_CRASH coordinate for this run, if any
    #[serde(default)]
    pub fs_crash: Option<String>,
    /// record filesystem effects of this run into this file
    #[serde(default)]
    pub fs_log: Option<String>,
    /// faults applied to the `log tail` listener of the world while this run proceeds
    #[serde(default)]
    pub lfaults: Vec<LFault>,
    /// FSFAULT_WRITE_STALL coordinate: "<class substring>:<k>:<ms>" (a stalled disk under the output directory)
    #[serde(default)]
    pub fs_write_stall: Option<String>,
    #[serde(default)]
    pub env_actions: Vec<EnvAction>,
    /// FSFAULT_WRITE_FAIL coordinate "<class substring>:<k>": from the k-th write to a matching file below the
    /// output directory on, every such write fails with ENOSPC (the disk has filled up)
    #[serde(default)]
    pub fs_write_fail: Option<String>,
    /// RLIMIT_NOFILE of the monorail process of this run (None = the world's / inherited)
    #[serde(default)]
    pub nofile: Option<u64>,
    /// before a child scripted to fail is told to exit (after its hold), wait until no thread of the monorail
    /// process is runnable over several consecutive samples: whatever the children wrote has then been read
    /// and flushed, however loaded the machine is (a wall-clock pause alone would encode timing)
    #[serde(default)]
    pub quiesce_before_failures: bool,
    /// arguments of the world's `log tail` listener (needed to start it again for LAction::Restart)
    #[serde(default)]
    pub listener_args: Vec<String>,
    /// the run is started the way a recipe of `make -j2` would start it: MAKEFLAGS names a jobserver fifo that
    /// holds one token (an environment the tool has no business reacting to)
    #[serde(default)]
    pub make_jobserver: bool,
    /// a listener fault that is triggered by a write waits until monorail has read that write (load-independent
    /// quiescence) before it strikes: with a long flush interval the bytes are then certainly read and not yet flushed
    #[serde(default)]
    pub quiesce_before_lfaults: bool,
}

fn port_listening(port: u16) -> bool {
    let want = format!(":{:04X}", port);
    std::fs::read_to_string("/proc/net/tcp").unwrap_or_default().lines().skip(1).any(|l| {
        let f: Vec<&str> = l.split_whitespace().collect();
        f.len() > 3 && f[1].ends_with(&want) && f[3] == "0A"
    })
}

/// No thread of `pid` is runnable (R) or in uninterruptible I/O (D) in `need` consecutive samples taken `gap`
/// apart; gives up after `max`. Returns whether quiescence was seen.
pub fn wait_quiescent(pid: i32, need: usize, gap: Duration, max: Duration) -> bool {
    let t0 = std::time::Instant::now();
    let mut quiet = 0;
    while t0.elapsed() < max {
        let mut busy = false;
        if let Ok(rd) = std::fs::read_dir(format!("/proc/{}/task", pid)) {
            for e in rd.flatten() {
                if let Ok(st) = std::fs::read_to_string(e.path().join("stat")) {
                    if let Some(i) = st.rfind(')') {
                        let state = st[i + 1..].trim_start().chars().next().unwrap_or('?');
                        if state == 'R' || state == 'D' {
                            busy = true;
                        }
                    }
                }
            }
        } else {
            return true; // gone
        }
        if busy {
            quiet = 0;
        } else {
            quiet += 1;
            if quiet >= need {
                return true;
            }
        }
        std::thread::sleep(gap);
    }
    false
}
impl RunScript {
    pub fn simple(opts: RunOpts) -> RunScript {
        RunScript {
            opts,
            behav: vec![],
            strategy: Strategy::PlanOrder,
            sched_seed: 0,
            prio: vec![],
            until_at: None,
            kill: None,
            workers: None,
            flush_ms: None,
            rand_seed: None,
            fs_crash: None,
            fs_log: None,
            lfaults: vec![],
            fs_write_stall: None,
            env_actions: vec![],
            fs_write_fail: None,
            nofile: None,
            quiesce_before_failures: false,
            listener_args: vec![],
            make_jobserver: false,
            quiesce_before_lfaults: false,
        }
    }
    pub fn behav_for(&self, command: &str, target: &str) -> Option<&Behav> {
        self.behav.iter().find(|b| b.command == command && b.target == target)
    }
}

#[derive(Clone, Debug)]
pub struct HelperRec {
    pub command: String,
    pub target: String,
    pub conn: usize,
    pub pid: i32,
    pub argv0: Vec<u8>,
    pub argv: Vec<Vec<u8>>,
    pub cwd: Vec<u8>,
    pub stdin_null: bool,
    pub env: Vec<u8>,
    pub start_seq: u64,
    /// the spawn point that preceded this start, if any
    pub spawn_seq: Option<u64>,
    pub exit_instr_seq: Option<u64>,
    pub exit_code: Option<i32>,
    /// bytes acknowledged as written, per fd (index 1, 2)
    pub written: [Vec<u8>; 3],
    pub write_errors: usize,
    pub group: usize,
    script: VecDeque<OutStep>,
    released: bool,
}
#[derive(Clone, Debug)]
pub struct PointRec {
    pub seq: u64,
    pub name: String,
    pub detail: String,
}
#[derive(Clone, Debug, Default)]
pub struct RunTrace {
    pub args: Vec<String>,
    pub points: Vec<PointRec>,
    /// (seq, command, target) of every spawn request
    pub spawn_reqs: Vec<(u64, String, String)>,
    pub helpers: Vec<HelperRec>,
    /// starts that could not be attributed to a known command file
    pub unknown_starts: Vec<String>,
    pub exit: Option<ProcExit>,
    pub env_actions_done: usize,
    /// lines written by FILL steps, and whether one of them stopped at its limit instead of at a full pipe
    pub filled_lines: u64,
    pub fill_hit_limit: bool,
    /// the machine never let the monorail process come to rest before a scripted failure
    pub quiesce_failed: bool,
    pub hang: Option<String>,
    pub killed: bool,
    pub log: Vec<String>,
    /// number of decision steps at which monorail was parked while another actor moved
    pub held_moves: usize,
    pub until_used: bool,
    pub until_ok: Option<bool>,
    /// decision steps that differed from plain plan order
    pub nonplan_decisions: usize,
    pub steps: usize,
    /// listener faults that actually fired: (action, acknowledged OUT count at that moment)
    pub lfaults_fired: Vec<(LAction, usize)>,
    /// exit record of the listener if a fault killed it
    pub listener_exit: Option<ProcExit>,
    /// process id (controller index) of the listener that replaced the original one
    pub listener_restarted_as: Option<usize>,
    pub outs_acked: usize,
    pub real_pause_ms: u64,
    /// what every helper had written (acknowledged) when the first failing exit was about to be issued
    pub written_at_first_failure: Option<Vec<[Vec<u8>; 3]>>,
    /// spawn requests that were released but never produced a child (the spawn failed inside monorail)
    pub spawn_without_child: Vec<(String, String)>,
}
impl RunTrace {
    pub fn result_json(&self) -> Option<serde_json::Value> {
        self.exit.as_ref().and_then(|e| serde_json::from_slice(&e.stdout).ok())
    }
    pub fn code(&self) -> Option<i32> {
        self.exit.as_ref().and_then(|e| e.code)
    }
    pub fn helper(&self, command: &str, target: &str) -> Vec<&HelperRec> {
        self.helpers.iter().filter(|h| h.command == command && h.target == target).collect()
    }
    pub fn stderr_str(&self) -> String {
        self.exit.as_ref().map(|e| String::from_utf8_lossy(&e.stderr).into_owned()).unwrap_or_default()
    }
}

#[derive(Clone, Copy, PartialEq, Debug)]
enum Opt {
    MGo,
    MWait,
    H(usize),
}

fn split_detail(d: &str) -> (String, String) {
    match d.split_once('\u{0}') {
        Some((a, b)) => (a.to_string(), b.to_string()),
        None => (d.to_string(), String::new()),
    }
}

pub fn drive_run(w: &mut World, actor: &str, sc: &RunScript, hang: Duration) -> RunTrace {
    drive_run_l(w, actor, sc, hang, None)
}

/// As drive_run, with an optional `log tail` listener process that the script's faults act on.
pub fn drive_run_l(w: &mut World, actor: &str, sc: &RunScript, hang: Duration, listener: Option<usize>) -> RunTrace {
    let mut tr = RunTrace::default();
    let args = sc.opts.to_args();
    tr.args = args.clone();
    let mut env: Vec<(String, String)> = vec![];
    if let Some(n) = sc.workers {
        env.push(("TOKIO_WORKER_THREADS".into(), n.to_string()));
    }
    if let Some(ms) = sc.flush_ms {
        env.push(("MONORAIL_VERIF_FLUSH_MS".into(), ms.to_string()));
    }
    if let Some(s) = sc.rand_seed {
        env.push(("LD_PRELOAD".into(), crate::world::shim_path().to_string_lossy().into_owned()));
        env.push(("FSFAULT_RANDSEED".into(), s.to_string()));
    }
    let mut _jobserver: Option<std::fs::File> = None;
    if sc.make_jobserver {
        let fifo = w.root.join(".ctl/jobserver");
        let _ = std::fs::remove_file(&fifo);
        if let Ok(c) = std::ffi::CString::new(fifo.as_os_str().as_bytes()) {
            if unsafe { libc::mkfifo(c.as_ptr(), 0o600) } == 0 {
                if let Ok(mut f) = std::fs::OpenOptions::new().read(true).write(true).open(&fifo) {
                    use std::io::Write;
                    let _ = f.write_all(b"+");
                    _jobserver = Some(f);
                    env.push(("MAKEFLAGS".into(), format!(" -j2 --jobserver-auth=fifo:{}", fifo.display())));
                    env.push(("MAKELEVEL".into(), "1".into()));
                }
            }
        }
    }
    if let Some(st) = &sc.fs_write_stall {
        env.push(("LD_PRELOAD".into(), crate::world::shim_path().to_string_lossy().into_owned()));
        env.push(("FSFAULT_ROOT".into(), w.out_dir().to_string_lossy().into_owned()));
        env.push(("FSFAULT_WRITE_STALL".into(), st.clone()));
    }
    if let Some(wf) = &sc.fs_write_fail {
        env.push(("LD_PRELOAD".into(), crate::world::shim_path().to_string_lossy().into_owned()));
        env.push(("FSFAULT_ROOT".into(), w.out_dir().to_string_lossy().into_owned()));
        env.push(("FSFAULT_WRITE_FAIL".into(), wf.clone()));
    }
    if sc.fs_crash.is_some() || sc.fs_log.is_some() {
        env.push(("LD_PRELOAD".into(), crate::world::shim_path().to_string_lossy().into_owned()));
        env.push(("FSFAULT_ROOT".into(), w.out_dir().to_string_lossy().into_owned()));
        if let Some(c) = &sc.fs_crash {
            env.push(("FSFAULT_CRASH".into(), c.clone()));
        }
        if let Some(l) = &sc.fs_log {
            env.push(("FSFAULT_LOG".into(), l.clone()));
        }
    }
    let saved_nofile = w.nofile;
    if sc.nofile.is_some() {
        w.nofile = sc.nofile;
    }
    let started = w.start_m(actor, &args, "*", &env);
    w.nofile = saved_nofile;
    let proc_id = match started {
        Ok(p) => p,
        Err(e) => {
            tr.hang = Some(format!("could not start monorail: {}", e));
            return tr;
        }
    };
    let argv0_map = w.argv0_map.clone();
    let root = w.root.clone();
    let mut restart_cmd = if sc.lfaults.iter().any(|f| f.action == LAction::Restart) && !sc.listener_args.is_empty() { Some(w.monorail_cmd(&sc.listener_args)) } else { None };
    let log_port = w.ports.log;
    let mut listener = listener;
    let ctl = w.ctl.as_mut().unwrap();
    let mut rng = Rng::new(sc.sched_seed);
    tr.log.push(format!("start {} {}", actor, args.join(" ")));

    let mut m_parked: Option<Point> = None;
    let mut m_exited = false;
    let mut live: Vec<usize> = vec![]; // indices of helpers not yet instructed to exit
    let mut group = 0usize;
    let mut in_results = false;
    let mut results_consumed = 0usize;
    let mut done_instructed = 0usize;
    let mut failure = false;
    let mut shutdown_idx = 0usize;
    let mut point_counts: std::collections::HashMap<String, usize> = Default::default();
    let mut straggler: Option<usize> = None;
    let mut pending_spawn: Option<(u64, String, String)> = None;
    // a child being kept alive for real time: (helper, deadline); meanwhile monorail is answered at once
    let mut hold: Option<(usize, std::time::Instant)> = None;
    let mut after_hold: Option<usize> = None;
    let mut rr_last: Option<usize> = None;

    macro_rules! hang {
        ($($a:tt)*) => {{
            tr.hang = Some(format!($($a)*));
            tr.log.push(format!("HANG {}", tr.hang.as_ref().unwrap()));
            ctl.kill(proc_id);
            let _ = ctl.wait_exit(proc_id, Duration::from_secs(5));
            break;
        }};
    }

    macro_rules! lfault {
        ($trig:expr) => {{
            if let Some(l) = listener {
                for f in &sc.lfaults {
                    if f.at == $trig {
                        if sc.quiesce_before_lfaults && matches!($trig, LTrigger::AfterOut { .. }) {
                            // what the child has just written has been read by monorail (no thread of it is runnable
                            // any more) and, with a long flush interval, is still sitting in the reader's hands
                            let pid = ctl.procs[proc_id].pid;
                            let _ = wait_quiescent(pid, 4, Duration::from_millis(2), Duration::from_secs(1));
                        }
                        match f.action {
                            LAction::Kill => {
                                if tr.listener_exit.is_none() {
                                    ctl.kill(l);
                                    tr.listener_exit = ctl.wait_exit(l, Duration::from_secs(5));
                                }
                            }
                            LAction::Restart => {
                                if tr.listener_exit.is_none() {
                                    ctl.kill(l);
                                    let _ = ctl.wait_exit(l, Duration::from_secs(5));
                                    match restart_cmd.take().map(|c| ctl.spawn("L2", c, false)) {
                                        Some(Ok(nl)) => {
                                            let t0 = std::time::Instant::now();
                                            while !port_listening(log_port) && t0.elapsed() < Duration::from_secs(5) {
                                                std::thread::sleep(Duration::from_micros(500));
                                            }
                                            listener = Some(nl);
                                            tr.listener_restarted_as = Some(nl);
                                        }
                                        _ => {
                                            // could not be started again: it simply stays dead
                                            tr.listener_exit = Some(ProcExit { proc_id: l, code: None, signal: Some(9), stdout: vec![], stderr: vec![] });
                                        }
                                    }
                                }
                            }
                            LAction::Stop => ctl.signal(l, libc::SIGSTOP),
                            LAction::Cont => ctl.signal(l, libc::SIGCONT),
                            LAction::StopFor { ms } => {
                                ctl.signal(l, libc::SIGSTOP);
                                let pid = ctl.procs[l].pid;
                                std::thread::spawn(move || {
                                    std::thread::sleep(Duration::from_millis(ms as u64));
                                    unsafe {
                                        libc::kill(pid, libc::SIGCONT);
                                    }
                                });
                                tr.real_pause_ms += ms as u64;
                            }
                        }
                        tr.lfaults_fired.push((f.action, tr.outs_acked));
                        tr.log.push(format!("listener {:?} at {:?}", f.action, f.at));
                    }
                }
            }
        }};
    }

    'outer: loop {
        if m_exited {
            break;
        }
        // ---- enabled moves
        let mut opts: Vec<Opt> = vec![];
        if m_parked.is_some() {
            opts.push(Opt::MGo);
        } else {
            let group_n = tr.helpers.iter().filter(|h| h.group == group).count();
            let blocked = in_results && !failure && results_consumed >= done_instructed && results_consumed < group_n;
            let allowed = if failure { live.iter().all(|&i| !tr.helpers[i].released) } else { !blocked };
            if allowed {
                opts.push(Opt::MWait);
            }
        }
        for &i in &live {
            if tr.helpers[i].released {
                opts.push(Opt::H(i));
            }
        }
        if opts.is_empty() {
            // monorail is waiting for children, but none can move: nothing will ever happen
            hang!("deadlock: monorail waits for a child result but no child is releasable (live={}, consumed={}, instructed={})", live.len(), results_consumed, done_instructed);
        }
        tr.steps += 1;
        if let Some(Kill::AtStep { n }) = &sc.kill {
            if tr.steps == *n {
                tr.log.push(format!("KILL at step {}", n));
                tr.killed = true;
                ctl.kill(proc_id);
                tr.exit = ctl.wait_exit(proc_id, Duration::from_secs(5));
                break;
            }
        }
        // ---- policy
        let hs: Vec<usize> = opts.iter().filter_map(|o| if let Opt::H(i) = o { Some(*i) } else { None }).collect();
        let serial_pick = |key: &dyn Fn(usize) -> i64| -> Opt {
            if opts.contains(&Opt::MGo) {
                Opt::MGo
            } else if opts.contains(&Opt::MWait) {
                Opt::MWait
            } else {
                let mut best = hs[0];
                for &h in &hs {
                    if key(h) < key(best) {
                        best = h;
                    }
                }
                Opt::H(best)
            }
        };
        let mut timed: Option<Duration> = None;
        let forced: Option<Opt> = if let Some((i, dl)) = hold {
            let now = std::time::Instant::now();
            if now >= dl {
                hold = None;
                after_hold = Some(i);
                Some(Opt::H(i))
            } else if m_parked.is_some() {
                Some(Opt::MGo)
            } else {
                timed = Some(dl - now);
                Some(Opt::MWait)
            }
        } else {
            None
        };
        let choice = if let Some(f) = forced { f } else { match sc.strategy {
            Strategy::PlanOrder => serial_pick(&|h| h as i64),
            Strategy::Reverse => serial_pick(&|h| -(h as i64)),
            Strategy::Prio => {
                let helpers = &tr.helpers;
                serial_pick(&|h| {
                    let t = &helpers[h].target;
                    let p = sc.prio.iter().find(|(x, _)| x == t).map(|x| x.1).unwrap_or(0);
                    p * 100000 + h as i64
                })
            }
            Strategy::RoundRobin => {
                if opts.contains(&Opt::MGo) {
                    Opt::MGo
                } else if opts.contains(&Opt::MWait) {
                    Opt::MWait
                } else {
                    let next = hs.iter().cloned().filter(|h| rr_last.map(|l| *h > l).unwrap_or(true)).min().unwrap_or_else(|| *hs.iter().min().unwrap());
                    rr_last = Some(next);
                    Opt::H(next)
                }
            }
            Strategy::OutputThenFailures => {
                if opts.contains(&Opt::MGo) {
                    Opt::MGo
                } else if opts.contains(&Opt::MWait) {
                    Opt::MWait
                } else {
                    let with_output: Vec<usize> = hs.iter().cloned().filter(|h| !tr.helpers[*h].script.is_empty()).collect();
                    let failing: Vec<usize> = hs.iter().cloned().filter(|h| sc.behav_for(&tr.helpers[*h].command, &tr.helpers[*h].target).map(|b| b.code != 0).unwrap_or(false)).collect();
                    if !with_output.is_empty() {
                        let next = with_output.iter().cloned().filter(|h| rr_last.map(|l| *h > l).unwrap_or(true)).min().unwrap_or(with_output[0]);
                        rr_last = Some(next);
                        Opt::H(next)
                    } else if !failing.is_empty() {
                        Opt::H(failing[0])
                    } else {
                        Opt::H(hs[0])
                    }
                }
            }
            Strategy::Uniform => opts[rng.below(opts.len())],
            Strategy::HoldM => {
                let others: Vec<Opt> = opts.iter().cloned().filter(|o| *o != Opt::MGo).collect();
                if others.is_empty() || (opts.contains(&Opt::MGo) && rng.chance(1, 8)) {
                    if opts.contains(&Opt::MGo) { Opt::MGo } else { opts[rng.below(opts.len())] }
                } else {
                    others[rng.below(others.len())]
                }
            }
            Strategy::Straggler => {
                if straggler.map(|s| !live.contains(&s)).unwrap_or(true) && !hs.is_empty() {
                    straggler = Some(hs[rng.below(hs.len())]);
                }
                let non: Vec<usize> = hs.iter().cloned().filter(|h| Some(*h) != straggler).collect();
                if !non.is_empty() && rng.chance(3, 4) {
                    Opt::H(non[rng.below(non.len())])
                } else if opts.contains(&Opt::MGo) {
                    Opt::MGo
                } else if opts.contains(&Opt::MWait) {
                    Opt::MWait
                } else if !non.is_empty() {
                    Opt::H(non[rng.below(non.len())])
                } else {
                    Opt::H(hs[0])
                }
            }
        } };
        let plan_choice = {
            if opts.contains(&Opt::MGo) { Opt::MGo } else if opts.contains(&Opt::MWait) { Opt::MWait } else { Opt::H(hs[0]) }
        };
        if choice != plan_choice {
            tr.nonplan_decisions += 1;
        }
        if m_parked.is_some() && choice != Opt::MGo {
            tr.held_moves += 1;
        }
        match choice {
            Opt::MGo => {
                let p = m_parked.take().unwrap();
                if p.name == "run.shutdown.send" && sc.until_at == Some(shutdown_idx) {
                    tr.until_used = true;
                    ctl.send(p.conn, "UNTIL\n");
                    match ctl.wait_for(|e| matches!(e, Ev::Line{conn, line} if *conn == p.conn && line.starts_with("UNTILDONE")), hang) {
                        Some(Ev::Line { line, .. }) => {
                            tr.until_ok = Some(line.ends_with('1'));
                            tr.log.push(format!("until {}", line));
                        }
                        _ => hang!("no UNTILDONE from monorail"),
                    }
                }
                ctl.tick();
                ctl.send(p.conn, "GO\n");
                tr.log.push(format!("m-go {}", p.name));
                if let Some((sseq, c, t)) = pending_spawn.take() {
                    // the helper this spawn creates must report before anything else is decided
                    let mut ev = ctl.wait_for(|e| matches!(e, Ev::Hello(_)) || matches!(e, Ev::Exit(x) if x.proc_id == proc_id) || matches!(e, Ev::Point(p) if p.actor == actor), hang);
                    if let Some(Ev::Point(p)) = ev {
                        // monorail went on to its next point. Either the child is merely slow to report, or the
                        // spawn failed inside monorail (an executable that cannot be exec'd) and monorail carried
                        // on: give the child two more seconds, then conclude that it was never started.
                        let arrival = ctl.seq;
                        ev = ctl.wait_for(|e| matches!(e, Ev::Hello(_)), Duration::from_secs(2));
                        ctl.unget(arrival, Ev::Point(p));
                        if ev.is_none() {
                            tr.log.push(format!("spawn-without-child {} {}", c, t));
                            tr.spawn_without_child.push((c.clone(), t.clone()));
                            continue 'outer;
                        }
                    }
                    match ev {
                        Some(Ev::Hello(h)) => {
                            let seq = ctl.seq;
                            let (tt, cc) = match argv0_map.get(&h.argv0) {
                                Some((t2, c2)) if t2 == "*" => {
                                    // a script shared by several targets: the process runs in its target's directory
                                    let cwd = std::path::PathBuf::from(std::ffi::OsStr::from_bytes(&h.cwd));
                                    let rel = cwd.strip_prefix(&root).map(|p| p.to_string_lossy().into_owned()).unwrap_or_else(|_| String::from("?"));
                                    (rel, c2.clone())
                                }
                                Some((t2, c2)) => (t2.clone(), c2.clone()),
                                None => {
                                    tr.unknown_starts.push(String::from_utf8_lossy(&h.argv0).into_owned());
                                    (String::from("?"), String::from("?"))
                                }
                            };
                            if tt != t || cc != c {
                                tr.log.push(format!("hello-mismatch wanted {} {} got {} {}", c, t, cc, tt));
                            }
                            let again = tr.helpers.iter().any(|x| x.command == cc && x.target == tt);
                            let script: VecDeque<OutStep> = sc.behav_for(&cc, &tt).map(|b| if again && !b.outs_again.is_empty() { b.outs_again.iter().cloned().collect() } else { b.outs.iter().cloned().collect() }).unwrap_or_default();
                            tr.log.push(format!("hello {} {}", cc, tt));
                            tr.helpers.push(HelperRec {
                                command: cc, target: tt, conn: h.conn, pid: h.pid, argv0: h.argv0, argv: h.args, cwd: h.cwd,
                                stdin_null: h.stdin_null, env: h.env, start_seq: seq, spawn_seq: Some(sseq), exit_instr_seq: None, exit_code: None,
                                written: [vec![], vec![], vec![]], write_errors: 0, group, script, released: false,
                            });
                            live.push(tr.helpers.len() - 1);
                            let hi = tr.helpers.len() - 1;
                            let early = sc.behav_for(&tr.helpers[hi].command, &tr.helpers[hi].target).map(|b| (b.early_exit, b.code)).unwrap_or((false, 0));
                            if early.0 {
                                // it is gone before its siblings have even been started
                                let seq = ctl.tick();
                                ctl.send(tr.helpers[hi].conn, &format!("EXIT {}\n", early.1));
                                tr.helpers[hi].exit_instr_seq = Some(seq);
                                tr.helpers[hi].exit_code = Some(early.1);
                                tr.helpers[hi].script.clear();
                                tr.log.push(format!("early-exit {} {} code={}", tr.helpers[hi].command, tr.helpers[hi].target, early.1));
                                live.retain(|x| *x != hi);
                                done_instructed += 1;
                                if early.1 != 0 {
                                    failure = true;
                                }
                            }
                        }
                        Some(Ev::Exit(x)) => {
                            tr.log.push(format!("m-exit-during-spawn code={:?}", x.code));
                            tr.exit = Some(x);
                            m_exited = true;
                        }
                        _ => hang!("spawn of {} {} was released but no child ever started", c, t),
                    }
                }
            }
            Opt::MWait => {
                let ev = ctl.wait_for(|e| match e {
                    Ev::Point(p) => p.actor == actor,
                    Ev::Exit(x) => x.proc_id == proc_id,
                    Ev::Hello(_) => true,
                    _ => false,
                }, timed.unwrap_or(hang));
                if ev.is_none() && timed.is_some() {
                    // the hold is over (or nothing happened meanwhile): not a hang
                    continue 'outer;
                }
                match ev {
                    Some(Ev::Point(p)) => {
                        let seq = ctl.seq;
                        let n = point_counts.entry(p.name.clone()).or_insert(0);
                        *n += 1;
                        let nth = *n;
                        tr.points.push(PointRec { seq, name: p.name.clone(), detail: p.detail.clone() });
                        tr.log.push(format!("point {} {}", p.name, p.detail.replace('\u{0}', " ")));
                        match p.name.as_str() {
                            "run.spawn" => {
                                let (c, t) = split_detail(&p.detail);
                                tr.spawn_reqs.push((seq, c.clone(), t.clone()));
                                pending_spawn = Some((seq, c, t));
                            }
                            "run.group.spawned" => {
                                for &i in &live {
                                    if tr.helpers[i].group == group {
                                        tr.helpers[i].released = true;
                                    }
                                }
                                in_results = true;
                                straggler = None;
                            }
                            "run.task.result" => {
                                results_consumed += 1;
                            }
                            "run.shutdown.send" => {
                                if in_results {
                                    shutdown_idx = 0;
                                }
                                in_results = false;
                                shutdown_idx += 1;
                            }
                            "run.group.done" => {
                                in_results = false;
                                group += 1;
                                results_consumed = 0;
                                done_instructed = 0;
                            }
                            _ => {}
                        }
                        for ea in sc.env_actions.iter().filter(|a| a.point == p.name && a.nth == nth) {
                            use std::os::unix::fs::PermissionsExt;
                            let r = match &ea.act {
                                EnvAct::Chmod { rel, mode } => std::fs::set_permissions(root.join(rel), std::fs::Permissions::from_mode(*mode)),
                                EnvAct::Write { rel, content } => std::fs::write(root.join(rel), content),
                                EnvAct::Remove { rel } => std::fs::remove_file(root.join(rel)),
                                EnvAct::MakeHelper { rel } => {
                                    let _ = std::fs::remove_file(root.join(rel));
                                    std::os::unix::fs::symlink(crate::world::bin_dir().join("vhelper"), root.join(rel))
                                }
                                EnvAct::BusyExec { ms } => {
                                    // a private copy of the helper (the shared binary must not become busy for
                                    // every other world), then a writer that goes away after `ms`
                                    let (c, t) = split_detail(&p.detail);
                                    let path = argv0_map.iter().find(|(_, (tt, cc))| *cc == c && (*tt == t || tt == "*")).map(|(k, _)| std::path::PathBuf::from(std::ffi::OsStr::from_bytes(k)));
                                    match path {
                                        None => Err(std::io::Error::new(std::io::ErrorKind::NotFound, "no command file known for this spawn")),
                                        Some(path) => {
                                            let is_link = std::fs::symlink_metadata(&path).map(|m| m.file_type().is_symlink()).unwrap_or(false);
                                            let prep = if is_link {
                                                std::fs::remove_file(&path)
                                                    .and_then(|_| std::fs::copy(crate::world::bin_dir().join("vhelper"), &path).map(|_| ()))
                                                    .and_then(|_| std::fs::set_permissions(&path, std::fs::Permissions::from_mode(0o755)))
                                            } else {
                                                Ok(())
                                            };
                                            prep.and_then(|_| std::fs::OpenOptions::new().write(true).open(&path)).map(|f| {
                                                let ms = *ms as u64;
                                                tr.real_pause_ms += ms;
                                                std::thread::spawn(move || {
                                                    std::thread::sleep(Duration::from_millis(ms));
                                                    drop(f);
                                                });
                                            })
                                        }
                                    }
                                }
                            };
                            tr.env_actions_done += 1;
                            tr.log.push(format!("env {:?} at {} #{} -> {}", ea.act, p.name, nth, if r.is_ok() { "ok" } else { "failed" }));
                        }
                        lfault!(LTrigger::AtPoint { name: p.name.clone(), nth });
                        if let Some(Kill::AtPoint { name, nth: k }) = &sc.kill {
                            if *name == p.name && *k == nth {
                                tr.log.push(format!("KILL at point {} #{}", name, k));
                                tr.killed = true;
                                ctl.kill(proc_id);
                                tr.exit = ctl.wait_exit(proc_id, Duration::from_secs(5));
                                break 'outer;
                            }
                        }
                        m_parked = Some(p);
                    }
                    Some(Ev::Exit(x)) => {
                        tr.log.push(format!("m-exit code={:?} signal={:?}", x.code, x.signal));
                        tr.exit = Some(x);
                        m_exited = true;
                    }
                    Some(Ev::Hello(h)) => {
                        // a child that no spawn point announced
                        let name = match argv0_map.get(&h.argv0) {
                            Some((t, c)) => format!("{} {}", c, t),
                            None => String::from_utf8_lossy(&h.argv0).into_owned(),
                        };
                        tr.log.push(format!("unannounced-start {}", name));
                        tr.unknown_starts.push(format!("unannounced: {}", name));
                        ctl.send(h.conn, "EXIT 0\n");
                    }
                    _ => {
                        let what = if in_results { "a task result" } else { "its next step" };
                        hang!("monorail produced neither a point nor an exit while expected to reach {} (group {}, live children {}, results {}/{})", what, group, live.len(), results_consumed, done_instructed);
                    }
                }
            }
            Opt::H(i) => {
                let step = tr.helpers[i].script.pop_front();
                let conn = tr.helpers[i].conn;
                match step {
                    Some(o) => {
                        if o.pause_ms > 0 {
                            std::thread::sleep(Duration::from_millis(o.pause_ms as u64));
                        }
                        ctl.tick();
                        // "~<max>~<hex prefix>" in place of the bytes: the child writes numbered lines without ever
                        // blocking until its pipe has stayed full for 400 ms (the reader is stuck) or <max> lines are
                        // out, and reports how many it wrote
                        let fill: Option<(u64, String)> = o.hex.strip_prefix('~').and_then(|r| r.split_once('~')).and_then(|(m, h)| m.parse().ok().map(|m| (m, h.to_string())));
                        if let Some((max, h)) = &fill {
                            ctl.send(conn, &format!("FILL {} {} {}\n", o.fd, h, max));
                            match ctl.wait_for(|e| matches!(e, Ev::Line{conn: c, ..} if *c == conn) || matches!(e, Ev::Eof{conn: c} if *c == conn), hang) {
                                Some(Ev::Line { line, .. }) if line.starts_with("ACK") => {
                                    let n: u64 = line.split_whitespace().nth(1).and_then(|x| x.parse().ok()).unwrap_or(0);
                                    let prefix = unhex(h);
                                    let w = &mut tr.helpers[i].written[o.fd as usize];
                                    for k in 1..=n {
                                        w.extend_from_slice(&prefix);
                                        w.extend_from_slice(format!(" {} ", k).as_bytes());
                                        w.extend_from_slice(&[b'f'; 150]);
                                        w.push(b'\n');
                                    }
                                    tr.log.push(format!("fill {} {} fd{}: the pipe stayed full (or the limit was reached)", tr.helpers[i].command, tr.helpers[i].target, o.fd));
                                    tr.filled_lines += n;
                                    tr.fill_hit_limit |= n >= *max;
                                    tr.outs_acked += 1;
                                    lfault!(LTrigger::AfterOut { n: tr.outs_acked });
                                }
                                Some(Ev::Eof { .. }) => {
                                    tr.log.push(format!("helper-vanished {} {}", tr.helpers[i].command, tr.helpers[i].target));
                                    live.retain(|x| *x != i);
                                    done_instructed += 1;
                                }
                                _ => hang!("helper {} {} did not finish filling its pipe", tr.helpers[i].command, tr.helpers[i].target),
                            }
                            continue 'outer;
                        }
                        if o.close {
                            ctl.send(conn, &format!("CLOSE {}\n", o.fd));
                        } else {
                            ctl.send(conn, &format!("OUT {} {}\n", o.fd, o.hex));
                        }
                        match ctl.wait_for(|e| matches!(e, Ev::Line{conn: c, ..} if *c == conn) || matches!(e, Ev::Eof{conn: c} if *c == conn), hang) {
                            Some(Ev::Line { line, .. }) if line.starts_with("ACK") && o.close => {
                                tr.log.push(format!("close {} {} fd{}", tr.helpers[i].command, tr.helpers[i].target, o.fd));
                            }
                            Some(Ev::Line { line, .. }) if line.starts_with("ACK") => {
                                let b = unhex(&o.hex);
                                tr.log.push(format!("out {} {} fd{} {}", tr.helpers[i].command, tr.helpers[i].target, o.fd, show(&b[..b.len().min(24)])));
                                tr.helpers[i].written[o.fd as usize].extend_from_slice(&b);
                                tr.outs_acked += 1;
                                lfault!(LTrigger::AfterOut { n: tr.outs_acked });
                            }
                            Some(Ev::Line { line, .. }) => {
                                tr.helpers[i].write_errors += 1;
                                tr.log.push(format!("out-failed {} {} fd{} {}", tr.helpers[i].command, tr.helpers[i].target, o.fd, line));
                            }
                            Some(Ev::Eof { .. }) => {
                                tr.log.push(format!("helper-vanished {} {}", tr.helpers[i].command, tr.helpers[i].target));
                                live.retain(|x| *x != i);
                                done_instructed += 1;
                            }
                            _ => hang!("helper {} {} did not acknowledge a write (monorail not draining its pipe?)", tr.helpers[i].command, tr.helpers[i].target),
                        }
                    }
                    None => {
                        let (code, pause) = sc.behav_for(&tr.helpers[i].command, &tr.helpers[i].target).map(|b| (b.code, b.exit_pause_ms)).unwrap_or((0, 0));
                        if code != 0 && tr.written_at_first_failure.is_none() {
                            tr.written_at_first_failure = Some(tr.helpers.iter().map(|h| h.written.clone()).collect());
                        }
                        if pause > 0 && after_hold != Some(i) {
                            // keep it alive for that long; monorail keeps being answered meanwhile, so whatever
                            // it does on its own during that time is observed with its true arrival stamp
                            tr.log.push(format!("hold {} {} for {} ms", tr.helpers[i].command, tr.helpers[i].target, pause));
                            tr.real_pause_ms += pause as u64;
                            hold = Some((i, std::time::Instant::now() + Duration::from_millis(pause as u64)));
                            continue 'outer;
                        }
                        after_hold = None;
                        if sc.quiesce_before_failures && code != 0 {
                            let pid = ctl.procs[proc_id].pid;
                            let ok = wait_quiescent(pid, 8, Duration::from_millis(3), Duration::from_secs(5));
                            tr.log.push(format!("quiesce before failure: {}", if ok { "quiet" } else { "gave up" }));
                            if !ok {
                                tr.quiesce_failed = true;
                            }
                        }
                        let hold_pipes = sc.behav_for(&tr.helpers[i].command, &tr.helpers[i].target).map(|b| b.hold_pipes_ms).unwrap_or(0);
                        if hold_pipes > 0 {
                            ctl.send(conn, &format!("FORKHOLD {}\n", hold_pipes));
                            let _ = ctl.wait_for(|e| matches!(e, Ev::Line{conn: c, ..} if *c == conn), hang);
                            tr.log.push(format!("background process of {} {} keeps the pipes open for {} ms", tr.helpers[i].command, tr.helpers[i].target, hold_pipes));
                            tr.real_pause_ms += hold_pipes as u64;
                        }
                        let seq = ctl.tick();
                        if code < 0 {
                            // die by signal -code: the process has no exit code at all
                            ctl.send(conn, &format!("SIGNAL {}\n", -code));
                        } else {
                            ctl.send(conn, &format!("EXIT {}\n", code));
                        }
                        tr.helpers[i].exit_instr_seq = Some(seq);
                        tr.helpers[i].exit_code = Some(code);
                        tr.log.push(format!("exit {} {} code={}", tr.helpers[i].command, tr.helpers[i].target, code));
                        live.retain(|x| *x != i);
                        done_instructed += 1;
                        if code != 0 {
                            failure = true;
                        }
                    }
                }
            }
        }
    }
    // reap whatever is left of monorail's process group (orphaned helpers)
    ctl.kill(proc_id);
    if tr.exit.is_none() {
        tr.exit = ctl.wait_exit(proc_id, Duration::from_secs(5));
    }
    // forget stale events of this run (EOFs and late lines of its helpers, its own late points); exits of
    // other processes of the world (a listener, contenders) stay
    let conns: std::collections::HashSet<usize> = tr.helpers.iter().map(|h| h.conn).collect();
    let m_conn_actor = actor.to_string();
    ctl.forget(|e| match e {
        Ev::Eof { conn } => conns.contains(conn) || true,
        Ev::Line { conn, .. } => conns.contains(conn),
        Ev::Point(p) => p.actor == m_conn_actor,
        Ev::Hello(h) => h.actor == m_conn_actor,
        Ev::Exit(x) => x.proc_id == proc_id,
    });
    let _ = hex(b"");
    tr
}
