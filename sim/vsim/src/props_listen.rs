//! C15 (log streaming never affects the outcome of a run) and C20 (what `log tail` prints
//! reassembles to each task's log): worlds with a real `monorail log tail` listener process.
use crate::ctl::ProcExit;
use crate::harness::{scenario_seed, Outcome, Property, Tier};
use crate::logparse::parse_blocks;
use crate::prng::Rng;
use crate::props_log::{check_stored, stored_logs, written_logs};
use crate::props_run::check_c06;
use crate::proto::hex;
use crate::rundrv::{drive_run_l, Behav, LAction, LFault, LTrigger, OutStep, RunOpts, RunScript, RunTrace, Strategy};
use crate::runworld::*;
use crate::world::{CmdFile, TargetSpec, World, WorldSpec};
use serde::{Deserialize, Serialize};
use serde_json::{json, Value};
use std::collections::{BTreeMap, BTreeSet};
use std::time::{Duration, Instant};

#[derive(Serialize, Deserialize, Clone, Debug, PartialEq)]
pub struct ListenerCfg {
    pub stdout: bool,
    pub stderr: bool,
    pub targets: Vec<String>,
    pub commands: Vec<String>,
}
impl ListenerCfg {
    fn args(&self) -> Vec<String> {
        let mut a = vec!["log".to_string(), "tail".into()];
        if self.stdout {
            a.push("--stdout".into());
        }
        if self.stderr {
            a.push("--stderr".into());
        }
        if !self.targets.is_empty() {
            a.push("-t".into());
            a.extend(self.targets.iter().cloned());
        }
        if !self.commands.is_empty() {
            a.push("-c".into());
            a.extend(self.commands.iter().cloned());
        }
        a
    }
    fn admits(&self, file: &str, target: &str, command: &str) -> bool {
        (self.targets.is_empty() || self.targets.iter().any(|t| t == target))
            && (self.commands.is_empty() || self.commands.iter().any(|c| c == command))
            && ((file == "stdout.zst" && self.stdout) || (file == "stderr.zst" && self.stderr))
    }
}

/// sockets with local port `port` in one of the given states (hex codes of /proc/net/tcp)
fn tcp_local_states(port: u16, states: &[&str]) -> usize {
    let want = format!(":{:04X}", port);
    let txt = std::fs::read_to_string("/proc/net/tcp").unwrap_or_default();
    txt.lines()
        .skip(1)
        .filter(|l| {
            let f: Vec<&str> = l.split_whitespace().collect();
            f.len() > 3 && f[1].ends_with(&want) && states.contains(&f[3])
        })
        .count()
}

pub fn start_listener(w: &mut World, cfg: &ListenerCfg) -> Result<usize, String> {
    let cmd = w.monorail_cmd(&cfg.args());
    let port = w.ports.log;
    let ctl = w.ctl.as_mut().ok_or("no controller")?;
    let id = ctl.spawn("L", cmd, false).map_err(|e| e.to_string())?;
    let t0 = Instant::now();
    while tcp_local_states(port, &["0A"]) == 0 {
        if ctl.procs[id].exited || t0.elapsed() > Duration::from_secs(5) {
            return Err("listener did not start listening".into());
        }
        if ctl.peek(|e| matches!(e, crate::ctl::Ev::Exit(x) if x.proc_id == id)) {
            return Err("listener exited instead of listening".into());
        }
        std::thread::sleep(Duration::from_micros(500));
    }
    Ok(id)
}

/// Wait until the listener has consumed everything the (finished) run sent, then stop it and return its output.
pub fn finish_listener(w: &mut World, l: usize) -> Option<ProcExit> {
    let port = w.ports.log;
    // a listener that a fault left stopped must first be allowed to drain
    w.ctl.as_mut()?.signal(l, libc::SIGCONT);
    // the listener relays line by line with a flush per line: megabytes take seconds to drain
    let t0 = Instant::now();
    while tcp_local_states(port, &["01", "08"]) > 0 {
        if t0.elapsed() > Duration::from_secs(90) {
            // not drained: its capture is incomplete and must not be judged
            let ctl = w.ctl.as_mut()?;
            ctl.kill(l);
            let _ = ctl.wait_exit(l, Duration::from_secs(5));
            return None;
        }
        std::thread::sleep(Duration::from_micros(500));
    }
    let ctl = w.ctl.as_mut()?;
    ctl.kill(l);
    ctl.wait_exit(l, Duration::from_secs(5))
}

fn components() -> Value {
    json!({
        "real": ["monorail run (LogServerClient, process_bufs)", "monorail log tail (LogServer) as a separate process", "loopback TCP", "kernel"],
        "stub": ["children are vhelper"],
        "controlled": ["when the listener is killed / stopped / continued relative to the run's points and the children's writes", "child schedules", "flush interval knob", "TOKIO_WORKER_THREADS"]
    })
}

// ---------------------------------------------------------------------------------------------
// C15

#[derive(Serialize, Deserialize, Clone, Debug)]
pub struct C15Scenario {
    pub run: RunScenario,
    pub listener: Option<ListenerCfg>,
}

pub struct C15;

/// Two independent tasks in one group: the first leaves a line unterminated (a prompt, a progress text) across
/// several flush ticks while the second writes more than two pipe buffers; then the first finishes its line.
fn gen_c15_prompt_then_flood(rng: &mut Rng) -> C15Scenario {
    let mut targets = vec![];
    let mut cmd_files = vec![];
    for i in 0..2 {
        let path = format!("t{:02}", i);
        cmd_files.push(CmdFile { target: path.clone(), command: "build".into(), rel: WorldSpec::default_cmd_rel(&path, "build"), exec: true, broken: false });
        targets.push(TargetSpec { path, ..Default::default() });
    }
    let spec = WorldSpec { targets, cmd_files, files: vec![], sequences: vec![], max_retained_runs: 2, gitignore: vec![], git: true, lock_host: None, default_ports: 0, omit_max_retained: false, sha256_repo: false, clock_plan: vec![], script_wrappers: 0 };
    let mut script = RunScript::simple(RunOpts { commands: vec!["build".into()], ..Default::default() });
    let (fa, fb) = (if rng.chance(1, 2) { 1u8 } else { 2 }, if rng.chance(1, 2) { 1u8 } else { 2 });
    let mut flood = Vec::new();
    let total = 150 * 1024 + rng.below(100 * 1024);
    let mut n = 0;
    while flood.len() < total {
        n += 1;
        flood.extend_from_slice(format!("build@t01 fd{} flood line {} {}\n", fb, n, "z".repeat(rng.below(120))).as_bytes());
    }
    script.behav.push(Behav { command: "build".into(), target: "t00".into(), outs: vec![
        OutStep { fd: fa, hex: hex(format!("build@t00 fd{} waiting for the other task ... ", fa).as_bytes()), pause_ms: 0, close: false },
        OutStep { fd: fa, hex: hex(b"done\n"), pause_ms: 0, close: false },
    ], code: 0, exit_pause_ms: 0, early_exit: false, hold_pipes_ms: 0, outs_again: vec![] });
    script.behav.push(Behav { command: "build".into(), target: "t01".into(), outs: vec![
        // a real pause of several flush intervals before the flood: the unterminated line has been through a tick
        OutStep { fd: fb, hex: hex(&flood), pause_ms: 80, close: false },
    ], code: 0, exit_pause_ms: 0, early_exit: false, hold_pipes_ms: 0, outs_again: vec![] });
    script.strategy = Strategy::RoundRobin;
    script.sched_seed = rng.next_u64();
    script.workers = Some(*rng.pick(&[1u32, 2, 4, 16]));
    script.flush_ms = Some(*rng.pick(&[5u64, 20]));
    script.rand_seed = Some(rng.next_u64() % 1_000_000);
    let listener = Some(ListenerCfg { stdout: true, stderr: true, targets: vec![], commands: vec![] });
    C15Scenario { run: RunScenario { spec, mode: Mode::All, script, hang_ms: default_hang_ms() }, listener }
}

/// A task writes as fast as it can while the listener is stopped: the connection fills up, the task's reader inside
/// monorail gets stuck behind it, the pipe fills up behind the reader - and at that moment the task exits, leaving its
/// last 64 KiB in the pipe. The listener comes back 2-3 s later. Every line the task wrote must be in the stored log.
fn gen_c15_exit_behind_stalled_listener(rng: &mut Rng) -> C15Scenario {
    let mut targets = vec![];
    let mut cmd_files = vec![];
    for i in 0..2 {
        let path = format!("t{:02}", i);
        cmd_files.push(CmdFile { target: path.clone(), command: "build".into(), rel: WorldSpec::default_cmd_rel(&path, "build"), exec: true, broken: false });
        targets.push(TargetSpec { path, ..Default::default() });
    }
    let spec = WorldSpec { targets, cmd_files, files: vec![], sequences: vec![], max_retained_runs: 2, gitignore: vec![], git: true, lock_host: None, default_ports: 0, omit_max_retained: false, sha256_repo: false, clock_plan: vec![], script_wrappers: 0 };
    let mut script = RunScript::simple(RunOpts { commands: vec!["build".into()], ..Default::default() });
    let fd = if rng.chance(1, 2) { 1u8 } else { 2 };
    script.behav.push(Behav { command: "build".into(), target: "t00".into(), outs: vec![
        OutStep { fd, hex: hex(format!("build@t00 fd{} starting\n", fd).as_bytes()), pause_ms: 0, close: false },
        // at most 120000 lines (21 MB): far more than a loopback connection buffers
        OutStep { fd, hex: format!("~120000~{}", hex(format!("build@t00 fd{} line", fd).as_bytes())), pause_ms: 0, close: false },
    ], code: 0, exit_pause_ms: 0, early_exit: false, hold_pipes_ms: 0, outs_again: vec![] });
    script.behav.push(Behav { command: "build".into(), target: "t01".into(), outs: vec![
        OutStep { fd: 1, hex: hex(b"build@t01 fd1 a quiet neighbour\n"), pause_ms: 0, close: false },
    ], code: 0, exit_pause_ms: 0, early_exit: false, hold_pipes_ms: 0, outs_again: vec![] });
    // the noisy task goes first and runs to its end before the neighbour is looked at
    script.strategy = Strategy::Prio;
    script.prio = vec![("t00".into(), 0), ("t01".into(), 1)];
    script.sched_seed = rng.next_u64();
    script.workers = Some(*rng.pick(&[1u32, 2, 4, 16]));
    script.flush_ms = Some(*rng.pick(&[5u64, 20, 100]));
    script.rand_seed = Some(rng.next_u64() % 1_000_000);
    script.lfaults.push(LFault { at: LTrigger::AfterOut { n: 1 }, action: LAction::StopFor { ms: *rng.pick(&[3500u32, 4200, 5000]) } });
    let listener = Some(ListenerCfg { stdout: true, stderr: true, targets: vec![], commands: vec![] });
    C15Scenario { run: RunScenario { spec, mode: Mode::All, script, hang_ms: default_hang_ms() }, listener }
}

fn gen_c15(seed: u64, idx: usize, _tier: Tier) -> C15Scenario {
    {
        let mut frng = Rng::new(scenario_seed(seed, "C15-fill", idx));
        if frng.chance(1, 25) {
            return gen_c15_exit_behind_stalled_listener(&mut frng);
        }
    }
    let mut rng0 = Rng::new(scenario_seed(seed, "C15p", idx));
    if rng0.chance(1, 15) {
        return gen_c15_prompt_then_flood(&mut rng0);
    }
    let mut rng = Rng::new(scenario_seed(seed, "C15", idx));
    let p = GenParams { max_t: 6, undefined_pct: 5, nonexec_pct: 4, ..Default::default() };
    let spec = gen_world(&mut rng, &p);
    let mut opts = gen_opts(&mut rng, &spec);
    let mode = gen_mode(&mut rng, &spec, &mut opts, true);
    let mut behav: Vec<Behav> = spec
        .cmd_files
        .iter()
        .filter(|c| c.exec && !c.command.ends_with("__decoy"))
        .map(|c| {
            let k = rng.below(5);
            let outs = (0..k)
                .map(|i| {
                    let fd = if rng.chance(1, 2) { 1 } else { 2 };
                    let mut b = format!("{}@{} fd{} #{}", c.command, c.target, fd, i).into_bytes();
                    // one line in six is not valid UTF-8 (Latin-1 text, a truncated multi-byte sequence, raw bytes)
                    if rng.chance(1, 6) {
                        b.extend_from_slice(*rng.pick(&[&b" caf\xe9"[..], &b" \xe2\x82"[..], &b" \x00\xff\xfe"[..]]));
                    }
                    // one line in twelve is longer than 8 KiB and made of multi-byte characters
                    if rng.chance(1, 12) {
                        let unit = "é✓日本語ß-";
                        let reps = (8300 + rng.below(9000)) / unit.len();
                        b.extend_from_slice(format!(" {}{}", "x".repeat(rng.below(7)), unit.repeat(reps)).as_bytes());
                    }
                    b.push(b'\n');
                    OutStep { fd, hex: hex(&b), pause_ms: 0, close: false }
                })
                .collect::<Vec<OutStep>>();
            // one task in five ends a stream without a trailing newline
            let mut outs = outs;
            if rng.chance(1, 5) {
                if let Some(last) = outs.last_mut() {
                    let mut bytes = crate::proto::unhex(&last.hex);
                    if bytes.last() == Some(&b'\n') {
                        bytes.pop();
                        last.hex = hex(&bytes);
                    }
                }
            }
            Behav { command: c.command.clone(), target: c.target.clone(), outs, code: 0, exit_pause_ms: 0, early_exit: false, hold_pipes_ms: 0, outs_again: vec![] }
        })
        .collect();
    if rng.chance(1, 4) && !behav.is_empty() {
        let i = rng.below(behav.len());
        behav[i].code = *rng.pick(&[1, 2, 9, -9]);
    }
    let total_outs: usize = behav.iter().map(|b| b.outs.len()).sum();
    let mut script = RunScript::simple(opts);
    script.behav = behav;
    script.strategy = gen_strategy(&mut rng);
    script.sched_seed = rng.next_u64();
    script.prio = deps_last_prio(&spec);
    script.workers = Some(*rng.pick(&[1u32, 2, 4, 16]));
    script.flush_ms = Some(*rng.pick(&[5u64, 5, 20, 100]));
    script.rand_seed = Some(rng.next_u64() % 1_000_000);
    let listener = if rng.chance(1, 6) {
        None
    } else {
        let (so, se) = *rng.pick(&[(true, true), (true, false), (false, true), (true, true)]);
        let mut targets = vec![];
        if rng.chance(1, 3) {
            targets.push(spec.targets[rng.below(spec.targets.len())].path.clone());
        }
        if spec.cmd_files.iter().any(|c| !c.exec) && rng.chance(2, 3) {
            // with a member that cannot be started in the plan: a filter that names some of the other targets
            let mut ts: Vec<String> = spec.targets.iter().map(|t| t.path.clone()).collect();
            rng.shuffle(&mut ts);
            ts.truncate(rng.range(1, ts.len().max(2) - 1));
            targets = ts;
        }
        let mut commands = vec![];
        if rng.chance(1, 3) {
            commands.push(world_commands(&spec)[0].clone());
        }
        Some(ListenerCfg { stdout: so, stderr: se, targets, commands })
    };
    if listener.is_some() {
        match rng.below(7) {
            0 => {}
            1 => script.lfaults.push(LFault { at: LTrigger::AtPoint { name: "cli.lock.acquired".into(), nth: 1 }, action: LAction::Kill }),
            2 => script.lfaults.push(LFault { at: LTrigger::AtPoint { name: "run.group.done".into(), nth: rng.range(1, 2) }, action: LAction::Kill }),
            3 => script.lfaults.push(LFault { at: LTrigger::AfterOut { n: rng.range(1, total_outs.max(1)) }, action: LAction::Kill }),
            // killed, and a new listener is up on the same port before the run takes its next step
            4 => script.lfaults.push(LFault { at: LTrigger::AfterOut { n: rng.range(1, total_outs.max(1)) }, action: LAction::Restart }),
            5 if rng.chance(1, 2) => {
                // stopped, then killed while it still has unread data queued: the peer sees a reset, not a FIN
                let a = rng.range(1, total_outs.max(1));
                script.lfaults.push(LFault { at: LTrigger::AfterOut { n: a }, action: LAction::Stop });
                script.lfaults.push(LFault { at: LTrigger::AfterOut { n: (a + rng.range(1, 3)).min(total_outs.max(1)) }, action: LAction::Kill });
            }
            _ => {
                let a = rng.range(1, total_outs.max(1));
                script.lfaults.push(LFault { at: LTrigger::AfterOut { n: a }, action: LAction::Stop });
                script.lfaults.push(LFault { at: LTrigger::AfterOut { n: (a + rng.range(1, 4)).min(total_outs.max(1)) }, action: LAction::Cont });
            }
        }
    }
    // one world in eight leaves the server ports to their documented defaults (derived from a draw made above, so
    // that the rest of the scenario is what it was)
    let mut spec = spec;
    match script.sched_seed % 16 {
        0 => spec.default_ports = 1,
        1 => spec.default_ports = 2,
        _ => {}
    }
    // half of the listeners that are killed or replaced after a write die at a precise moment: the write has been read
    // by monorail, and the flush interval is the shipped 500 ms, so the bytes are in a reader's hands, not yet flushed
    {
        let mut qrng = Rng::new(script.sched_seed ^ 0x9E1E7);
        let after_out_death = script.lfaults.iter().any(|f| matches!(f.at, LTrigger::AfterOut { .. }) && matches!(f.action, LAction::Kill | LAction::Restart));
        if after_out_death && script.lfaults.len() == 1 && qrng.chance(1, 2) {
            script.quiesce_before_lfaults = true;
            script.flush_ms = Some(500);
        }
    }
    // one listener in six has a target filter value that names no configured target (a completed spelling `app/`,
    // `./app`, a typo, a target of another checkout): the listener then simply has less to show; the run must not care
    let mut listener = listener;
    if let Some(l) = listener.as_mut() {
        let mut frng = Rng::new(script.sched_seed ^ 0xF117E4);
        if frng.chance(1, 6) {
            let t0 = spec.targets[frng.below(spec.targets.len())].path.clone();
            let v = match frng.below(4) {
                0 => format!("{}/", t0),
                1 => format!("./{}", t0),
                2 => "no/such/target".to_string(),
                _ => format!("{}x", t0),
            };
            l.targets.push(v);
        }
    }
    C15Scenario { run: RunScenario { spec, mode, script, hang_ms: default_hang_ms() }, listener }
}

fn exec_c15(sc_in: &C15Scenario, paired: bool) -> Outcome {
    // paired runs with a failing child: the child stays alive for 120 ms (24 flush intervals of 5 ms) and then
    // until no thread of monorail is runnable any more (load-independent), so that whatever its siblings wrote
    // before it fails has been read and flushed
    let mut sc_owned = sc_in.clone();
    let has_failure = sc_owned.run.script.behav.iter().any(|b| b.code != 0);
    if paired && has_failure && sc_owned.listener.is_some() {
        sc_owned.run.script.flush_ms = Some(5);
        // everybody writes first, then the failing child fails while its siblings are still running
        sc_owned.run.script.strategy = Strategy::OutputThenFailures;
        sc_owned.run.script.quiesce_before_failures = true;
        for b in sc_owned.run.script.behav.iter_mut() {
            if b.code != 0 {
                b.exit_pause_ms = 120;
            }
        }
    }
    let sc = &sc_owned;
    let mut world_slot: Option<World> = None;
    let prepared = execute_run_l(&sc.run, sc.listener.as_ref(), &mut world_slot);
    let (ctx, lout) = match prepared {
        Err(r) => return Outcome::skip(&r),
        Ok(x) => x,
    };
    let w = world_slot.unwrap();
    let mut out = Outcome::default();
    base_trace(&ctx, &mut out);
    if ctx.trace.filled_lines > 0 {
        out.fault("task_exits_with_its_pipe_full_behind_a_stalled_listener", 1);
        out.probe("lines_written_until_the_pipe_stayed_full", ctx.trace.filled_lines);
        if ctx.trace.fill_hit_limit {
            out.probe("fill_stopped_at_its_limit_instead_of_a_full_pipe", 1);
        }
    }
    let tr = &ctx.trace;
    for (a, n) in &tr.lfaults_fired {
        out.fault(&format!("listener_{:?}", a).to_lowercase(), 1);
        if *a == LAction::Kill && *n > 0 {
            out.fault("listener_killed_after_output_began", 1);
        }
    }
    if sc.listener.is_none() {
        out.fault("listener_absent", 1);
    }
    // (1) statuses / failed flag / exit status: the listener-independent model of C06
    let mut tmp = Outcome::default();
    check_c06(&ctx, &mut tmp);
    if let Some(s) = tmp.skipped {
        out.skipped = Some(s);
        return out;
    }
    let delivered = lout.as_ref().map(|l| !l.stdout.is_empty()).unwrap_or(false) || tr.listener_exit.as_ref().map(|l| !l.stdout.is_empty()).unwrap_or(false);
    for v in tmp.violations {
        let check = if v.check == "exit_status" { "exit_with_listener" } else { "status_with_listener" };
        let killed = tr.lfaults_fired.iter().any(|f| f.0 == LAction::Kill);
        let class = if killed { format!("listener_killed:{}", v.check) } else { format!("{}:{}", v.check, v.class) };
        out.violate(check, &class, format!("listener {:?}, faults fired {:?}: {}", sc.listener, tr.lfaults_fired, v.msg));
    }
    if !out.violations.is_empty() {
        return out;
    }
    // (2) stored logs of every task that ran to completion
    if tr.result_json().is_some() {
        let doc = tr.result_json().unwrap();
        let rg = result_groups(&doc);
        let mut written = written_logs(tr);
        // only tasks reported success or error-with-code ran to completion under monorail's eyes
        written.retain(|k, _| rg.iter().any(|(c, gs)| *c == k.2 && gs.iter().any(|g| g.get(&k.1).map(|r| r.status == "success" || (r.status == "error" && r.code.is_some())).unwrap_or(false))));
        match stored_logs(&w, tr, &ctx.sc.spec, &ctx.commands) {
            Ok(stored) => {
                let mut t2 = Outcome::default();
                check_stored(&stored, &written, &mut t2);
                for v in t2.violations {
                    out.violate("logs_with_listener", &format!("{}:{}", v.check, v.class), format!("listener {:?}, faults fired {:?}: {}", sc.listener, tr.lfaults_fired, v.msg));
                }
            }
            Err(e) => out.violate("logs_with_listener", "unreadable", e),
        }
    }
    // (3) nothing monorail reported as finished is still running
    if let Some(doc) = tr.result_json() {
        for (c, gs) in result_groups(&doc) {
            for g in gs {
                for (t, r) in g {
                    if r.status == "success" || (r.status == "error" && r.code.is_some()) {
                        if tr.helpers.iter().any(|h| h.command == c && h.target == t && h.exit_instr_seq.is_none()) {
                            out.violate("orphan", "reported_finished_but_running", format!("'{}' for '{}' is reported {} but the process was never told to exit", c, t, r.status));
                        }
                    }
                }
            }
        }
    }
    // (4) differential cross-check: the same scenario without any listener
    if paired && out.violations.is_empty() && sc.listener.is_some() {
        let mut plain = sc.clone();
        plain.listener = None;
        plain.run.script.lfaults.clear();
        let mut slot2 = None;
        if let Ok((ctx2, _)) = execute_run_l(&plain.run, None, &mut slot2) {
            let a = canonical_result(&ctx.trace);
            let b = canonical_result(&ctx2.trace);
            out.sub_evals += 1;
            // statuses of same-group survivors of a failure are legitimately schedule dependent
            let has_failure = sc.run.script.behav.iter().any(|b| b.code != 0);
            if a != b && !has_failure {
                out.violate("status_with_listener", "differs_from_run_without_listener", format!("with listener: {} without: {}", a, b));
            }
            if ctx.trace.code() != ctx2.trace.code() {
                out.violate("exit_with_listener", "differs_from_run_without_listener", format!("exit {:?} with listener, {:?} without", ctx.trace.code(), ctx2.trace.code()));
            }
            // the children themselves must not be able to tell whether a listener is attached: same environment
            for h in &ctx.trace.helpers {
                if let Some(h2) = ctx2.trace.helpers.iter().find(|x| x.command == h.command && x.target == h.target) {
                    let norm = |e: &[u8], root: &std::path::Path| String::from_utf8_lossy(e).replace(&*root.to_string_lossy(), "$W");
                    let (ea, eb) = (norm(&h.env, &w.root), norm(&h2.env, slot2.as_ref().map(|x| x.root.as_path()).unwrap_or(std::path::Path::new("/nonexistent"))));
                    if ea != eb {
                        let va: BTreeSet<&str> = ea.split('\0').collect();
                        let vb: BTreeSet<&str> = eb.split('\0').collect();
                        let diff: Vec<&&str> = va.symmetric_difference(&vb).take(6).collect();
                        out.violate("status_with_listener", "child_environment_differs", format!("the environment of '{}' for '{}' differs between a run with a listener and one without: {:?} (a child may behave differently, so outcome and logs may)", h.command, h.target, diff));
                        break;
                    }
                }
            }
            // stored logs of members that were still running when the failure struck: what they had written
            // 120 ms earlier must be stored in both runs or in neither
            if has_failure && out.violations.is_empty() && !ctx.trace.quiesce_failed && !ctx2.trace.quiesce_failed {
                if let (Some(w2), Some(snap_a), Some(snap_b)) = (slot2.as_ref(), ctx.trace.written_at_first_failure.as_ref(), ctx2.trace.written_at_first_failure.as_ref()) {
                    let sa = stored_logs(&w, &ctx.trace, &ctx.sc.spec, &ctx.commands).unwrap_or_default();
                    let sb = stored_logs(w2, &ctx2.trace, &ctx2.sc.spec, &ctx2.commands).unwrap_or_default();
                    for (hi, h) in ctx.trace.helpers.iter().enumerate() {
                        let h2 = match ctx2.trace.helpers.iter().position(|x| x.command == h.command && x.target == h.target) {
                            Some(i) => i,
                            None => continue,
                        };
                        for (fd, file) in [(1usize, "stdout.zst"), (2usize, "stderr.zst")] {
                            // only complete lines: an unfinished last line is still in the reader's hands when the
                            // group is cancelled, and whether it is stored depends on which reader is dropped first
                            let whole_lines = |v: Vec<u8>| -> Vec<u8> {
                                match v.iter().rposition(|&c| c == b'\n') {
                                    Some(i) => v[..=i].to_vec(),
                                    None => vec![],
                                }
                            };
                            let (pa, pb) = (&whole_lines(snap_a.get(hi).map(|x| x[fd].clone()).unwrap_or_default()), &whole_lines(snap_b.get(h2).map(|x| x[fd].clone()).unwrap_or_default()));
                            if pa.is_empty() || pa != pb {
                                continue;
                            }
                            let k = (file.to_string(), h.target.clone(), h.command.clone());
                            let has_a = sa.get(&k).map(|s| s.starts_with(pa)).unwrap_or(false);
                            let has_b = sb.get(&k).map(|s| s.starts_with(pb)).unwrap_or(false);
                            out.probe("cancelled_or_finished_member_compared_across_listener_configs", 1);
                            if has_a != has_b {
                                out.violate("logs_with_listener", "differs_from_run_without_listener", format!("{} of '{}' for '{}': the {} bytes of complete lines it had written before a sibling failed (and monorail had come to rest) are stored {} a listener and {} one", file, h.command, h.target, pa.len(), if has_a { "with" } else { "NOT with" }, if has_b { "without" } else { "NOT without" }));
                            }
                        }
                    }
                }
            }
        }
    }
    let fault_after_delivery = tr.lfaults_fired.iter().any(|f| f.1 > 0) && delivered;
    out.probe("listener_received_blocks", delivered as u64);
    out.nontrivial = fault_after_delivery || (sc.listener.is_some() && delivered);
    out.signature = format!("{}|{:?}|{:?}|{:?}", ctx.trace.log.len(), sc.listener, tr.lfaults_fired, ctx.sc.script.strategy);
    out
}

/// execute_run with a listener: returns the context and the listener's final exit record (if it survived)
pub fn execute_run_l(sc: &RunScenario, lcfg: Option<&ListenerCfg>, slot: &mut Option<World>) -> Result<(Box<RunCtx>, Option<ProcExit>), String> {
    let mut w = World::create(&sc.spec, true).map_err(|e| format!("world: {}", e))?;
    if let Some(s) = sc.script.rand_seed {
        w.set_rand_seed(s);
    }
    let probe = w.cli(&["target", "show", "-g"]);
    if probe.code != Some(0) {
        return Err("config_rejected_or_sut_rejects_acyclic_graph(C03 territory)".into());
    }
    if let Mode::Changed { edits } = &sc.mode {
        if w.cli(&["checkpoint", "update"]).code != Some(0) {
            return Err("checkpoint update failed".into());
        }
        for (i, f) in edits.iter().enumerate() {
            w.write_file(f, &format!("edit {}\n", i))?;
        }
    }
    let l = match lcfg {
        Some(c) => Some(start_listener(&mut w, c)?),
        None => None,
    };
    let mut script = sc.script.clone();
    if let Some(c) = lcfg {
        script.listener_args = c.args();
    }
    let trace = drive_run_l(&mut w, "M1", &script, Duration::from_millis(sc.hang_ms), l);
    let lout = match l {
        Some(id) if trace.listener_exit.is_none() => finish_listener(&mut w, trace.listener_restarted_as.unwrap_or(id)),
        _ => None,
    };
    let probes: BTreeMap<String, u64> = w.ctl.as_mut().map(|c| c.take_probes().into_iter().collect()).unwrap_or_default();
    let commands = expanded_commands(&sc.spec, &sc.script.opts);
    let ctx = RunCtx { sc: sc.clone(), analyze_before: None, analyze_err: None, trace, commands, probes };
    *slot = Some(w);
    Ok((Box::new(ctx), lout))
}

impl Property for C15 {
    fn id(&self) -> &'static str {
        "C15"
    }
    fn count(&self, tier: Tier) -> usize {
        match tier {
            Tier::Quick => 400,
            Tier::Thorough => 8000,
        }
    }
    fn generate(&self, seed: u64, idx: usize, tier: Tier) -> Value {
        let sc = gen_c15(seed, idx, tier);
        // scenarios in which the listener's filter could matter to the plan are always run both ways
        let filter_and_static_failure = sc.listener.as_ref().map(|l| !l.targets.is_empty()).unwrap_or(false) && sc.run.spec.cmd_files.iter().any(|c| !c.exec);
        let mut v = serde_json::to_value(&sc).unwrap();
        // a task that writes until its pipe is full writes a different amount with and without a listener: such a
        // run is judged on its own (every line written is stored), not against a twin
        let fills = sc.run.script.behav.iter().any(|b| b.outs.iter().any(|o| o.hex.starts_with('~')));
        v["paired"] = json!(!fills && (tier == Tier::Thorough || idx % 4 == 0 || filter_and_static_failure));
        v
    }
    fn execute(&self, v: &Value) -> Outcome {
        match serde_json::from_value::<C15Scenario>(v.clone()) {
            Ok(sc) => exec_c15(&sc, v["paired"] == true),
            Err(e) => Outcome::skip(&format!("bad scenario {}", e)),
        }
    }
    fn shrink(&self, v: &Value) -> Vec<Value> {
        let mut outv = vec![];
        if let Ok(sc) = serde_json::from_value::<C15Scenario>(v.clone()) {
            let wrap = |s: &C15Scenario| {
                let mut x = serde_json::to_value(s).unwrap();
                x["paired"] = v["paired"].clone();
                x
            };
            for i in 0..sc.run.script.behav.len() {
                if sc.run.script.behav[i].code != 0 {
                    let mut s = sc.clone();
                    s.run.script.behav[i].code = 0;
                    outv.push(wrap(&s));
                }
            }
            if sc.run.script.strategy != Strategy::PlanOrder {
                let mut s = sc.clone();
                s.run.script.strategy = Strategy::PlanOrder;
                outv.push(wrap(&s));
            }
            for i in (0..sc.run.spec.targets.len()).rev() {
                if sc.run.spec.targets.len() <= 1 {
                    break;
                }
                let p = sc.run.spec.targets[i].path.clone();
                if sc.run.spec.targets.iter().any(|t| t.path != p && crate::models::inside_or_eq(&t.path, &p)) {
                    continue;
                }
                let mut s = sc.clone();
                s.run.spec.targets.remove(i);
                s.run.spec.cmd_files.retain(|c| c.target != p);
                for t in s.run.spec.targets.iter_mut() {
                    t.uses.retain(|u| !crate::models::inside_or_eq(u, &p));
                }
                s.run.script.behav.retain(|b| b.target != p);
                s.run.script.opts.targets.retain(|t| *t != p);
                if let Mode::Changed { edits } = &mut s.run.mode {
                    edits.retain(|e| !crate::models::inside_or_eq(e, &p));
                }
                if let Some(l) = s.listener.as_mut() {
                    l.targets.retain(|t| *t != p);
                }
                if s.run.mode == Mode::Named && s.run.script.opts.targets.is_empty() {
                    continue;
                }
                outv.push(wrap(&s));
            }
            if sc.run.script.opts.commands.len() + sc.run.script.opts.sequences.len() > 1 && !sc.run.script.opts.commands.is_empty() {
                let mut s = sc.clone();
                s.run.script.opts.commands.pop();
                outv.push(wrap(&s));
            }
        }
        outv
    }
    fn rule(&self) -> String {
        "C06-style runs (some with a failing child) under a listener configuration drawn from: none; --stdout / --stderr / both; target and command filters; and a listener fault drawn from: never; SIGKILL before the run connects; SIGKILL between two groups (monorail parked at run.group.done); SIGKILL after the k-th acknowledged write of a child (flush knob 5-100 ms, so flushes have already used the connection); SIGSTOP ... SIGCONT around 1-4 writes. Oracle: the listener-independent models (status model, exit status, stored logs of every task that ran to completion, nothing reported finished is still running); one scenario in four (thorough: all) is also executed without a listener and compared. Rounds 11-12: one listener in six has a target filter value that names no configured target (`app/`, `./app`, a typo); one scenario in 25 is a task that writes non-blocking until its pipe has stayed full for 400 ms behind a listener stopped for 3.5-5 s and exits at that moment (every line it wrote must be stored; judged on its own, not against a twin). Non-trivial = the listener received data, or a fault fired after data had been delivered; distinct = (trace length, listener config, faults fired, strategy)".into()
    }
    fn components(&self) -> Value {
        components()
    }
    fn assumptions(&self) -> Vec<String> {
        vec!["a stopped listener is always continued before the volume written could fill the socket buffers (a listener stalled forever is outside the property)".into(), "statuses of same-group survivors of a failing sibling are schedule dependent and accepted as in C06".into()]
    }
}

// ---------------------------------------------------------------------------------------------
// C20

#[derive(Serialize, Deserialize, Clone, Debug)]
pub struct C20Scenario {
    pub spec: WorldSpec,
    pub script: RunScript,
    pub listener: ListenerCfg,
    /// a second run that starts the moment the first one has ended, served by the same listener (which may
    /// still be printing the tail of the first)
    #[serde(default)]
    pub second: Option<RunScript>,
    /// the listener is closed mid-run and this one (narrower filters) is opened on the same port
    #[serde(default)]
    pub replaced_by: Option<ListenerCfg>,
}

pub struct C20;

/// Applied to the finished scenario (own generator, so that existing seeds keep their scenarios otherwise):
/// one small world in five gets target names that nest and share string prefixes (`rust`, `rust/core`, `rustfmt`,
/// `rustfmt/cli`, `app`, `apps/web`, ...) with a listener filter that names the short ones: a filter value admits the
/// target of exactly that name; and in one scenario in three one line in six ends in blanks (spaces, tabs, a
/// no-break or an ideographic space) before its newline: a listener must not tidy lines up.
fn c20_names_and_blanks(sc: &mut C20Scenario, seed: u64, idx: usize) {
    {
        // one plain scenario in twelve: the first listener hears everything and is closed after a third of the
        // writes; its replacement admits one stream of one target
        let mut rrng = Rng::new(scenario_seed(seed, "C20-replaced", idx));
        if sc.second.is_none() && sc.script.lfaults.is_empty() && sc.spec.targets.len() <= 24 && rrng.chance(1, 12) {
            let total: usize = sc.script.behav.iter().map(|b| b.outs.len()).sum();
            sc.listener = ListenerCfg { stdout: true, stderr: true, targets: vec![], commands: vec![] };
            let t = sc.script.behav[rrng.below(sc.script.behav.len())].target.clone();
            let so = rrng.chance(1, 2);
            sc.replaced_by = Some(ListenerCfg { stdout: so, stderr: !so, targets: vec![t], commands: vec![] });
            sc.script.lfaults.push(LFault { at: LTrigger::AfterOut { n: (total / 3).max(1) }, action: LAction::Restart });
        }
    }
    let mut rng = Rng::new(scenario_seed(seed, "C20-names", idx));
    let pool = ["rust", "rust/core", "rustfmt", "rustfmt/cli", "rusty", "app", "apps/web", "app/web", "app-web", "lib", "lib/x/y", "libs"];
    let mut map: BTreeMap<String, String> = BTreeMap::new();
    if sc.spec.targets.len() <= pool.len() && rng.chance(1, 5) {
        for (i, t) in sc.spec.targets.iter().enumerate() {
            map.insert(t.path.clone(), pool[i].to_string());
        }
    }
    let blanks = rng.chance(1, 3);
    let ren = |t: &mut String| {
        if let Some(n) = map.get(t) {
            *t = n.clone();
        }
    };
    for t in sc.spec.targets.iter_mut() {
        ren(&mut t.path);
    }
    for f in sc.spec.cmd_files.iter_mut() {
        ren(&mut f.target);
        f.rel = WorldSpec::default_cmd_rel(&f.target, &f.command);
    }
    sc.script.opts.targets.iter_mut().for_each(ren);
    sc.listener.targets.iter_mut().for_each(ren);
    if let Some(r) = sc.replaced_by.as_mut() {
        r.targets.iter_mut().for_each(ren);
    }
    if !map.is_empty() && rng.chance(1, 2) {
        // the short names that are string prefixes of other targets
        sc.listener.targets = ["rust", "app", "lib"].iter().map(|s| s.to_string()).filter(|s| sc.spec.targets.iter().any(|t| t.path == *s)).collect();
    }
    let mut scripts: Vec<&mut RunScript> = vec![&mut sc.script];
    if let Some(s2) = sc.second.as_mut() {
        scripts.push(s2);
    }
    for script in scripts {
        for b in script.behav.iter_mut() {
            let old = b.target.clone();
            ren(&mut b.target);
            let (from, to) = (format!("@{} ", old), format!("@{} ", b.target));
            for o in b.outs.iter_mut() {
                if o.close {
                    continue;
                }
                let bytes = crate::proto::unhex(&o.hex);
                if bytes.len() > 1_000_000 {
                    continue;
                }
                let mut text = match String::from_utf8(bytes) {
                    Ok(t) => t,
                    Err(_) => continue,
                };
                if from != to {
                    text = text.replace(&from, &to);
                }
                if blanks {
                    let mut out = String::with_capacity(text.len() + 64);
                    for line in text.split_inclusive('\n') {
                        if line.ends_with('\n') && rng.chance(1, 6) {
                            out.push_str(&line[..line.len() - 1]);
                            out.push_str(*rng.pick(&[" ", "  ", "\t", " \t ", "\u{a0}", "\u{3000}", "\u{c}"]));
                            out.push('\n');
                        } else {
                            out.push_str(line);
                        }
                    }
                    text = out;
                }
                o.hex = hex(text.as_bytes());
            }
        }
    }
}

fn gen_c20(seed: u64, idx: usize, tier: Tier) -> C20Scenario {
    let mut rng = Rng::new(scenario_seed(seed, "C20", idx));
    let nt = rng.range(4, if tier == Tier::Thorough { 24 } else { 12 });
    let cmds: Vec<String> = if rng.chance(1, 3) { vec!["build".into(), "test".into()] } else { vec!["build".into()] };
    // one scenario in twenty: a repository of 260-320 targets of which a handful run; the listener's filter names
    // most of them (a filter line of 8-12 KiB)
    let big_filter = rng.chance(1, 20);
    let total = if big_filter { rng.range(260, 320) } else { nt };
    let mut targets = vec![];
    let mut cmd_files = vec![];
    for i in 0..total {
        let path = if big_filter { format!("t{:03}-a-directory-name-of-some-length", i) } else { format!("t{:02}", i) };
        if i < nt {
            for c in &cmds {
                cmd_files.push(CmdFile { target: path.clone(), command: c.clone(), rel: WorldSpec::default_cmd_rel(&path, c), exec: true, broken: false });
            }
        }
        targets.push(TargetSpec { path, ..Default::default() });
    }
    let spec = WorldSpec { targets, cmd_files, files: vec![], sequences: vec![], max_retained_runs: 2, gitignore: vec![], git: false, lock_host: None, default_ports: 0, omit_max_retained: false, sha256_repo: false, clock_plan: vec![], script_wrappers: 0 };
    let mut script = RunScript::simple(RunOpts { commands: cmds.clone(), targets: if big_filter { spec.targets[..nt].iter().map(|t| t.path.clone()).collect() } else { vec![] }, ..Default::default() });
    let per_task = rng.range(6, 20);
    // one scenario in eight: a long stall of the listener while more is written than the connection can
    // buffer (about 4 MB on loopback), so that writers really block behind it
    let heavy_stall = rng.chance(1, if tier == Tier::Thorough { 8 } else { 16 }) && nt <= 8;
    // one in five: some writes are far larger than any chunking constant (blocks of 80-200 KB)
    let chatty = !heavy_stall && rng.chance(1, 5);
    for cf in &spec.cmd_files {
        let mut seq = [0u32; 3];
        let outs = (0..per_task)
            .map(|_| {
                let fd = if rng.chance(1, 2) { 1u8 } else { 2 };
                let k = if heavy_stall { rng.range(500, 700) } else if chatty && rng.chance(1, 3) { rng.range(900, 2200) } else { rng.range(1, 3) };
                let mut s = String::new();
                for _ in 0..k {
                    seq[fd as usize] += 1;
                    // padding is valid UTF-8 but not ASCII in every third line (multi-byte characters may straddle any read boundary)
                    // one line in ten carries terminal styling: reset within the line, or left open at its end
                    let pad = if rng.chance(1, 10) {
                        (*rng.pick(&["\x1b[31merror:\x1b[0m plain again", "\x1b[1;33mwarning: left open", "\x1b[2mdim ... still dim", "\x1b[38;5;81mlooks like a header colour"])).to_string()
                    } else if rng.chance(1, 3) {
                        "é✓日本語ß".repeat(rng.below(12))
                    } else {
                        "p".repeat(rng.below(60))
                    };
                    s.push_str(&format!("{}@{} fd{} seq{} {}\n", cf.command, cf.target, fd, seq[fd as usize], pad));
                }
                OutStep { fd, hex: hex(s.as_bytes()), pause_ms: 0, close: false }
            })
            .collect();
        script.behav.push(Behav { command: cf.command.clone(), target: cf.target.clone(), outs, code: 0, exit_pause_ms: 0, early_exit: false, hold_pipes_ms: 0, outs_again: vec![] });
    }
    // one scenario in twenty: one task prints a single newline-terminated line of 2.2-3.2 MiB
    if !heavy_stall && rng.chance(1, 12) {
        let bi = rng.below(script.behav.len());
        let fd = if rng.chance(1, 2) { 1u8 } else { 2 };
        let n = 2_300_000 + rng.below(1_000_000);
        let mut s = format!("{}@{} fd{} giant ", script.behav[bi].command, script.behav[bi].target, fd);
        while s.len() < n {
            s.push_str("0123456789abcdefghijklmnopqrstuvwxyzABCDEFGHIJKLMNOPQRSTUVWXYZ-_");
        }
        s.push('\n');
        let at = rng.below(script.behav[bi].outs.len() + 1);
        if rng.chance(1, 2) {
            // the line arrives in two pieces with several flush intervals between them (a blob dumped slowly):
            // more than 64 KiB of it are pending without a newline when a tick fires
            let cut = 70_000 + rng.below(400_000);
            let (a, b) = s.as_bytes().split_at(cut.min(s.len() - 1));
            script.behav[bi].outs.insert(at, OutStep { fd, hex: hex(b), pause_ms: 90, close: false });
            script.behav[bi].outs.insert(at, OutStep { fd, hex: hex(a), pause_ms: 0, close: false });
        } else {
            script.behav[bi].outs.insert(at, OutStep { fd, hex: hex(s.as_bytes()), pause_ms: 0, close: false });
        }
    }
    script.strategy = Strategy::Uniform;
    script.sched_seed = rng.next_u64();
    script.flush_ms = Some(*rng.pick(&[5u64, 5, 10, 20]));
    script.workers = Some(*rng.pick(&[4u32, 8, 16]));
    script.rand_seed = Some(rng.next_u64() % 1_000_000);
    let (so, se) = *rng.pick(&[(true, true), (true, true), (true, false), (false, true)]);
    let mut lt = vec![];
    if rng.chance(1, 3) {
        let mut ts: Vec<String> = spec.targets.iter().map(|t| t.path.clone()).collect();
        rng.shuffle(&mut ts);
        ts.truncate(rng.range(1, 3));
        lt = ts;
    }
    if big_filter {
        // every target but the first one that runs and a few that do not
        lt = spec.targets.iter().enumerate().filter(|(i, _)| *i != 0 && i % 17 != 3).map(|(_, t)| t.path.clone()).collect();
    }
    let mut lc = vec![];
    if cmds.len() > 1 && rng.chance(1, 2) {
        lc.push(cmds[rng.below(cmds.len())].clone());
    }
    if heavy_stall {
        let total: usize = script.behav.iter().map(|b| b.outs.len()).sum();
        script.lfaults.push(LFault { at: LTrigger::AfterOut { n: rng.range(1, (total / 6).max(1)) }, action: LAction::StopFor { ms: *rng.pick(&[1300u32, 1600, 2500]) } });
    } else if rng.chance(1, 4) {
        let total: usize = script.behav.iter().map(|b| b.outs.len()).sum();
        let a = rng.range(1, total / 2);
        script.lfaults.push(LFault { at: LTrigger::AfterOut { n: a }, action: LAction::Stop });
        script.lfaults.push(LFault { at: LTrigger::AfterOut { n: (a + rng.range(5, 40)).min(total) }, action: LAction::Cont });
    }
    // one scenario in six: two runs back to back on one listener; the first ends with a burst so that the
    // listener is still relaying it when the second connects
    let mut second = None;
    if !heavy_stall && rng.chance(1, 6) {
        for b in script.behav.iter_mut().take(3) {
            let mut s = String::new();
            let k = rng.range(2500, 5000);
            for i in 0..k {
                s.push_str(&format!("{}@{} fd1 tail{} {}\n", b.command, b.target, i, "q".repeat(rng.below(40))));
            }
            b.outs.push(OutStep { fd: 1, hex: hex(s.as_bytes()), pause_ms: 0, close: false });
        }
        let mut s2 = RunScript::simple(RunOpts { commands: cmds.clone(), ..Default::default() });
        for cf in &spec.cmd_files {
            let outs = (0..rng.range(1, 4))
                .map(|j| {
                    let fd = if rng.chance(1, 2) { 1u8 } else { 2 };
                    OutStep { fd, hex: hex(format!("{}@{} fd{} second-run line {}\n", cf.command, cf.target, fd, j).as_bytes()), pause_ms: 0, close: false }
                })
                .collect();
            s2.behav.push(Behav { command: cf.command.clone(), target: cf.target.clone(), outs, code: 0, exit_pause_ms: 0, early_exit: false, hold_pipes_ms: 0, outs_again: vec![] });
        }
        s2.strategy = Strategy::Uniform;
        s2.sched_seed = rng.next_u64();
        s2.flush_ms = script.flush_ms;
        s2.workers = script.workers;
        s2.rand_seed = script.rand_seed;
        second = Some(s2);
    }
    C20Scenario { spec, script, listener: ListenerCfg { stdout: so, stderr: se, targets: lt, commands: lc }, second, replaced_by: None }
}

/// The tail window is closed in the middle of the run and a new one, with narrower filters, is opened on the same port.
/// Whether the run finds the new listener is its business; what the new listener prints must be within ITS filters.
fn exec_c20_replaced(sc: &C20Scenario, second: &ListenerCfg) -> Outcome {
    let mut w = match World::create(&sc.spec, true) {
        Ok(w) => w,
        Err(e) => return Outcome::skip(&format!("world: {}", e)),
    };
    if let Some(s) = sc.script.rand_seed {
        w.set_rand_seed(s);
    }
    let l = match start_listener(&mut w, &sc.listener) {
        Ok(l) => l,
        Err(e) => return Outcome::skip(&format!("listener: {}", e)),
    };
    let mut script = sc.script.clone();
    script.listener_args = second.args();
    let tr = drive_run_l(&mut w, "M1", &script, Duration::from_millis(default_hang_ms()), Some(l));
    let mut out = Outcome::default();
    out.trace = tr.log.iter().filter(|l| !l.starts_with("out ")).cloned().collect();
    out.steps = tr.steps as u64;
    if tr.hang.is_some() || tr.code() != Some(0) {
        out.advisories.push(format!("run failed: {:?} {:?} {}", tr.hang, tr.code(), tr.stderr_str()));
        out.skipped = Some("run_did_not_succeed(other property)".into());
        return out;
    }
    let nl = match tr.listener_restarted_as {
        Some(x) => x,
        None => {
            out.skipped = Some("listener_was_not_replaced(harness)".into());
            return out;
        }
    };
    out.fault("listener_replaced_by_one_with_narrower_filters", 1);
    let cap = match finish_listener(&mut w, nl) {
        Some(x) => x.stdout,
        None => {
            out.skipped = Some("listener_output_unavailable(harness)".into());
            return out;
        }
    };
    let (_, blocks) = crate::logparse::parse_blocks_strict(&cap);
    let mut printed = 0;
    for (bi, b) in blocks.iter().enumerate() {
        let stream_header = bi == 0 || !b.colored || b.file.contains(',') || b.target.starts_with("(any ") || b.command.starts_with("(any ");
        if stream_header {
            continue;
        }
        printed += 1;
        if !second.admits(&b.file, &b.target, &b.command) {
            out.violate("filter", "unadmitted_block_after_listener_replaced", format!("the second listener {:?} (started after the first, {:?}, was closed mid-run) printed a block for {:?}", second, sc.listener, (&b.file, &b.target, &b.command)));
            break;
        }
    }
    out.probe("blocks_printed_by_the_replacing_listener", printed);
    out.nontrivial = true;
    out.signature = format!("replaced|{:?}|{:?}|{}", sc.listener, second, sc.spec.targets.len());
    out
}

fn exec_c20(sc: &C20Scenario) -> Outcome {
    if let Some(second) = &sc.replaced_by {
        return exec_c20_replaced(sc, second);
    }
    let mut w = match World::create(&sc.spec, true) {
        Ok(w) => w,
        Err(e) => return Outcome::skip(&format!("world: {}", e)),
    };
    if let Some(s) = sc.script.rand_seed {
        w.set_rand_seed(s);
    }
    let l = match start_listener(&mut w, &sc.listener) {
        Ok(l) => l,
        Err(e) => return Outcome::skip(&format!("listener: {}", e)),
    };
    let hang = Duration::from_millis(default_hang_ms());
    let tr = drive_run_l(&mut w, "M1", &sc.script, hang, Some(l));
    // the second run starts at once: the listener may still be relaying the first
    let tr2 = sc.second.as_ref().map(|s2| drive_run_l(&mut w, "M2", s2, hang, Some(l)));
    let lout = finish_listener(&mut w, l);
    let mut out = Outcome::default();
    out.trace = tr.log.iter().filter(|l| !l.starts_with("out ")).cloned().collect();
    out.steps = tr.steps as u64;
    for (a, _) in &tr.lfaults_fired {
        let name = match a {
            LAction::StopFor { .. } => "listener_stalled_for_seconds_behind_a_full_connection".to_string(),
            other => format!("listener_{:?}", other).to_lowercase(),
        };
        out.fault(&name, 1);
    }
    out.sim_ms = tr.real_pause_ms;
    let mut runs: Vec<(&RunTrace, &RunScript)> = vec![(&tr, &sc.script)];
    if let (Some(t2), Some(s2)) = (tr2.as_ref(), sc.second.as_ref()) {
        out.trace.extend(t2.log.iter().filter(|l| !l.starts_with("out ")).cloned());
        out.steps += t2.steps as u64;
        out.fault("second_run_connects_while_the_listener_relays_the_first", 1);
        runs.push((t2, s2));
    }
    for (t, _) in &runs {
        if t.hang.is_some() || t.code() != Some(0) {
            out.advisories.push(format!("run failed: {:?} {:?} {}", t.hang, t.code(), t.stderr_str()));
            out.skipped = Some("run_did_not_succeed(other property)".into());
            return out;
        }
    }
    let cap = match lout {
        Some(x) => x.stdout,
        None => {
            out.skipped = Some("listener_output_unavailable(harness)".into());
            return out;
        }
    };
    // C20's outputs are newline-terminated text: every header starts a line
    let (pre, blocks) = crate::logparse::parse_blocks_strict(&cap);
    if !pre.is_empty() {
        out.violate("block_structure", "bytes_before_stream_header", format!("the listener printed bytes before its stream header: {:?}", String::from_utf8_lossy(&pre[..pre.len().min(120)])));
        return out;
    }
    if blocks.is_empty() {
        out.violate("block_structure", "no_stream_header", "the listener printed nothing although a run connected".into());
        return out;
    }
    // one segment per connection: it starts at the (uncoloured) stream header the run sends first
    let mut segs: Vec<Vec<&crate::logparse::Block>> = vec![];
    for (bi, b) in blocks.iter().enumerate() {
        // a connection's stream header: the first header of the capture, an uncoloured header, or one that names
        // several streams / "(any target)" / "(any command)"
        let stream_header = bi == 0 || !b.colored || b.file.contains(',') || b.target.starts_with("(any ") || b.command.starts_with("(any ");
        if stream_header {
            if !b.bytes.is_empty() {
                out.violate("block_structure", "bytes_after_stream_header", format!("bytes follow the stream header without a block header: {:?}", String::from_utf8_lossy(&b.bytes[..b.bytes.len().min(120)])));
                return out;
            }
            segs.push(vec![]);
        } else {
            match segs.last_mut() {
                Some(s) => s.push(b),
                None => {
                    out.violate("block_structure", "bytes_before_stream_header", format!("a block for {:?} precedes the stream header", (&b.file, &b.target, &b.command)));
                    return out;
                }
            }
        }
    }
    if segs.len() != runs.len() {
        out.violate("block_structure", "stream_header_count", format!("{} run(s) connected one after the other but the capture holds {} stream header(s)", runs.len(), segs.len()));
        return out;
    }
    let mut multi = 0;
    let mut alternations = 0;
    for (ri, ((t, s), seg)) in runs.iter().zip(segs.iter()).enumerate() {
        let stored = match stored_logs(&w, t, &sc.spec, &s.opts.commands) {
            Ok(s) => s,
            Err(e) => {
                out.skipped = Some(format!("stored logs unreadable: {}", e));
                return out;
            }
        };
        let mut re: BTreeMap<(String, String, String), Vec<u8>> = BTreeMap::new();
        let mut per_key_blocks: BTreeMap<(String, String, String), usize> = BTreeMap::new();
        let mut last_key: Option<(String, String, String)> = None;
        for b in seg.iter() {
            let k = (b.file.clone(), b.target.clone(), b.command.clone());
            if !sc.listener.admits(&k.0, &k.1, &k.2) {
                out.violate("filter", "unadmitted_block", format!("listener {:?} printed a block for {:?}", sc.listener, k));
                return out;
            }
            if last_key.as_ref().map(|x| *x != k).unwrap_or(false) {
                alternations += 1;
            }
            last_key = Some(k.clone());
            *per_key_blocks.entry(k.clone()).or_insert(0) += 1;
            re.entry(k).or_default().extend_from_slice(&b.bytes);
        }
        // every admitted non-empty stored log must be reproduced; nothing else may appear
        let mut want: BTreeMap<(String, String, String), Vec<u8>> = BTreeMap::new();
        for (k, v) in &stored {
            if sc.listener.admits(&k.0, &k.1, &k.2) && !v.is_empty() {
                want.insert(k.clone(), v.clone());
            }
        }
        let which = if runs.len() > 1 { format!(" (run {} of {})", ri + 1, runs.len()) } else { String::new() };
        for (k, v) in &want {
            match re.get(k) {
                None => {
                    out.violate("reassembly", "stream_missing", format!("no block for {:?} although its stored log has {} bytes{}", k, v.len(), which));
                    return out;
                }
                Some(g) if g != v => {
                    let pos = g.iter().zip(v.iter()).position(|(a, b)| a != b).unwrap_or(g.len().min(v.len()));
                    let near_g = String::from_utf8_lossy(&g[pos.min(g.len())..(pos + 80).min(g.len())]).into_owned();
                    let near_v = String::from_utf8_lossy(&v[pos.min(v.len())..(pos + 80).min(v.len())]).into_owned();
                    let tag = format!("{}@{} ", k.2, k.1);
                    let foreign = String::from_utf8_lossy(g).lines().any(|l| !l.starts_with(&tag));
                    let class = if foreign { "foreign_line_in_block" } else if g.len() < v.len() { "lines_missing" } else { "lines_differ" };
                    out.violate("reassembly", class, format!("blocks of {:?} concatenate to {} bytes, stored log has {}{}; first difference at {}: tail {:?} vs stored {:?}", k, g.len(), v.len(), which, pos, near_g, near_v));
                    return out;
                }
                _ => {}
            }
        }
        for k in re.keys() {
            if !want.contains_key(k) {
                out.violate("reassembly", "block_without_log", format!("blocks printed for {:?} but the stored log is empty or absent{}", k, which));
                return out;
            }
        }
        multi += per_key_blocks.values().filter(|n| **n >= 2).count();
    }
    out.probe("captures_with_alternating_blocks", (alternations >= 2) as u64);
    out.probe("streams_with_two_or_more_blocks", multi as u64);
    out.nontrivial = multi >= 2 && alternations >= 2;
    out.signature = format!("{}|{:?}|{}|{}|{:?}|{}", sc.spec.targets.len(), sc.listener, blocks.len(), alternations, sc.script.flush_ms, runs.len());
    out
}

impl Property for C20 {
    fn id(&self) -> &'static str {
        "C20"
    }
    fn count(&self, tier: Tier) -> usize {
        match tier {
            Tier::Quick => 240,
            Tier::Thorough => 5000,
        }
    }
    fn generate(&self, seed: u64, idx: usize, tier: Tier) -> Value {
        let mut sc = gen_c20(seed, idx, tier);
        c20_names_and_blanks(&mut sc, seed, idx);
        serde_json::to_value(sc).unwrap()
    }
    fn execute(&self, v: &Value) -> Outcome {
        match serde_json::from_value::<C20Scenario>(v.clone()) {
            Ok(sc) => exec_c20(&sc),
            Err(e) => Outcome::skip(&format!("bad scenario {}", e)),
        }
    }
    fn shrink(&self, v: &Value) -> Vec<Value> {
        let mut outv = vec![];
        if let Ok(sc) = serde_json::from_value::<C20Scenario>(v.clone()) {
            if sc.second.is_some() {
                let mut s = sc.clone();
                s.second = None;
                outv.push(serde_json::to_value(s).unwrap());
            }
            for i in (0..sc.spec.targets.len()).rev() {
                if sc.spec.targets.len() > 2 {
                    let mut s = sc.clone();
                    let p = s.spec.targets.remove(i).path;
                    s.spec.cmd_files.retain(|c| c.target != p);
                    s.script.behav.retain(|b| b.target != p);
                    if let Some(s2) = s.second.as_mut() {
                        s2.behav.retain(|b| b.target != p);
                    }
                    s.listener.targets.retain(|t| *t != p);
                    outv.push(serde_json::to_value(s).unwrap());
                }
            }
            if sc.script.behav.iter().any(|b| b.outs.len() > 3) {
                let mut s = sc.clone();
                for b in s.script.behav.iter_mut() {
                    let n = b.outs.len() / 2;
                    b.outs.truncate(n.max(2));
                }
                outv.push(serde_json::to_value(s).unwrap());
            }
        }
        outv
    }
    fn rule(&self) -> String {
        "a real `log tail` listener (stream and target/command filter combinations) and a run of 4-12 (thorough 4-24) concurrent tasks, each writing 6-20 small writes of 1-3 newline-terminated lines on both streams (lines carry command@target, stream and a sequence number), flush knob 5-20 ms so every task flushes many blocks onto the one connection, TOKIO_WORKER_THREADS 4-16, one in four with the listener SIGSTOPped for 5-40 writes to build back-pressure; one in six is two runs back to back on one listener, the first ending with bursts of 2500-5000 lines so that the listener is still relaying them when the second connects. Oracle on the listener's stdout: one segment per connection, each starting with its (uncoloured) stream header; every later line belongs to the block of the nearest preceding header; per (stream, target, command) the blocks concatenate to the stored log; no block outside the filters. Round 12: one small world in five has nesting and prefix-sharing target names (rust, rust/core, rustfmt, rustfmt/cli, app, apps/web ...) with a filter naming the short ones (a filter value admits the target of exactly that name); in one scenario in three one line in six ends in blanks (space, tab, no-break space, ideographic space, form feed) before its newline. Non-trivial = >= 2 streams contributed >= 2 blocks each and blocks of different streams alternate in the capture; distinct = (tasks, filter, block count, alternations, flush knob)".into()
    }
    fn components(&self) -> Value {
        components()
    }
    fn assumptions(&self) -> Vec<String> {
        vec![
            "the interleaving of flushes on the multi-threaded runtime is produced by the real scheduler; the controller only raises its likelihood (knobs, stall), so detection of a broken critical section is probabilistic per scenario and relies on volume (see probes)".into(),
            "generated lines are newline-terminated text without carriage returns, as the property states".into(),
        ]
    }
}
