//! Parser for the block structure printed by `log show` and `log tail`.

#[derive(Clone, Debug, PartialEq, Eq, PartialOrd, Ord)]
pub struct Block {
    /// "stdout.zst" / "stderr.zst" (or the comma list of the stream header)
    pub file: String,
    pub target: String,
    pub command: String,
    pub bytes: Vec<u8>,
    /// the header line carried ANSI colour codes (task block headers do; the stream header of a
    /// `log tail` connection does not)
    pub colored: bool,
}

fn strip_ansi(s: &[u8]) -> Vec<u8> {
    let mut o = Vec::with_capacity(s.len());
    let mut i = 0;
    while i < s.len() {
        if s[i] == 0x1b && i + 1 < s.len() && s[i + 1] == b'[' {
            i += 2;
            while i < s.len() && s[i] != b'm' {
                i += 1;
            }
            i += 1;
        } else {
            o.push(s[i]);
            i += 1;
        }
    }
    o
}

/// If `line` (without its newline) is a header, return (file, target, command).
pub fn parse_header(line: &[u8]) -> Option<(String, String, String)> {
    if !line.starts_with(b"[monorail | ") || !line.ends_with(b"]") {
        return None;
    }
    let clean = strip_ansi(line);
    let s = String::from_utf8_lossy(&clean).into_owned();
    let inner = &s[1..s.len() - 1];
    let parts: Vec<&str> = inner.split(" | ").collect();
    if parts.len() != 4 || parts[0] != "monorail" {
        return None;
    }
    Some((parts[1].to_string(), parts[2].to_string(), parts[3].to_string()))
}

/// Split output into (preamble before the first header, blocks). A header is recognised at the
/// start of a line, or - for logs without a trailing newline - where the literal header prefix
/// begins in the middle of a line.
pub fn parse_blocks(out: &[u8]) -> (Vec<u8>, Vec<Block>) {
    parse_blocks_opt(out, true)
}

/// Headers are recognised at the start of a line only (the reading of a line-oriented consumer such as the
/// `log tail` window: a header glued to the end of an unfinished line is not a header).
pub fn parse_blocks_strict(out: &[u8]) -> (Vec<u8>, Vec<Block>) {
    parse_blocks_opt(out, false)
}

fn parse_blocks_opt(out: &[u8], mid_line: bool) -> (Vec<u8>, Vec<Block>) {
    let mut pre = vec![];
    let mut blocks: Vec<Block> = vec![];
    let mut i = 0;
    while i < out.len() {
        let end = out[i..].iter().position(|&c| c == b'\n').map(|p| i + p + 1).unwrap_or(out.len());
        let mut line = &out[i..end];
        // header in the middle of a line?
        let mut mid = None;
        if let Some(p) = find(line, b"[monorail | ").filter(|_| mid_line) {
            if p > 0 {
                let cand = &line[p..];
                let c2 = if cand.ends_with(b"\n") { &cand[..cand.len() - 1] } else { cand };
                if parse_header(c2).is_some() {
                    mid = Some(p);
                }
            }
        }
        if let Some(p) = mid {
            let head = &line[..p];
            match blocks.last_mut() {
                Some(b) => b.bytes.extend_from_slice(head),
                None => pre.extend_from_slice(head),
            }
            line = &line[p..];
        }
        let bare = if line.ends_with(b"\n") { &line[..line.len() - 1] } else { line };
        if let Some((f, t, c)) = parse_header(bare) {
            blocks.push(Block { file: f, target: t, command: c, bytes: vec![], colored: bare.contains(&0x1b) });
        } else {
            match blocks.last_mut() {
                Some(b) => b.bytes.extend_from_slice(line),
                None => pre.extend_from_slice(line),
            }
        }
        i = end;
    }
    (pre, blocks)
}

fn find(h: &[u8], n: &[u8]) -> Option<usize> {
    if n.is_empty() || h.len() < n.len() {
        return None;
    }
    (0..=h.len() - n.len()).find(|&i| &h[i..i + n.len()] == n)
}

#[cfg(test)]
mod tests {
    use super::*;
    #[test]
    fn blocks() {
        let out = b"[monorail | \x1b[38;5;81mstdout.zst\x1b[0m | a/b | build]\nhello\nworld[monorail | \x1b[38;5;214mstderr.zst\x1b[0m | a/b | build]\nerr\n";
        let (pre, b) = parse_blocks(out);
        assert!(pre.is_empty());
        assert_eq!(b.len(), 2);
        assert_eq!(b[0].file, "stdout.zst");
        assert_eq!(b[0].bytes, b"hello\nworld");
        assert_eq!(b[1].target, "a/b");
        assert_eq!(b[1].bytes, b"err\n");
    }
}
