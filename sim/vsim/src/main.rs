mod ctl;
mod gitmodel;
mod harness;
mod logparse;
mod models;
mod prng;
mod props_cfg;
mod props_git;
mod props_listen;
mod props_lock;
mod props_log;
mod props_run;
mod props_store;
mod proto;
mod rundrv;
mod runworld;
mod world;

use harness::{Property, Tier};

fn props() -> Vec<Box<dyn Property>> {
    vec![
        Box::new(props_run::C04),
        Box::new(props_run::C05),
        Box::new(props_run::C06),
        Box::new(props_run::C11),
        Box::new(props_run::C16),
        Box::new(props_git::C02),
        Box::new(props_git::C07),
        Box::new(props_git::C19),
        Box::new(props_log::C08),
        Box::new(props_store::C12),
        Box::new(props_lock::C14),
        Box::new(props_listen::C15),
        Box::new(props_cfg::C17),
        Box::new(props_listen::C20),
        Box::new(props_store::C13),
    ]
}

fn find(id: &str) -> Option<Box<dyn Property>> {
    props().into_iter().find(|p| p.id() == id)
}

fn main() {
    let args: Vec<String> = std::env::args().collect();
    let code = match args.get(1).map(|s| s.as_str()) {
        Some("check") => {
            let id = args.get(2).cloned().unwrap_or_default();
            let tier = match args.get(3).map(|s| s.as_str()) {
                Some("thorough") => Tier::Thorough,
                _ => Tier::Quick,
            };
            match find(&id) {
                Some(p) => harness::run_check(p.as_ref(), tier),
                None => {
                    eprintln!("unknown property {}", id);
                    2
                }
            }
        }
        Some("replay") => {
            let path = args.get(2).cloned().unwrap_or_default();
            let doc: Option<serde_json::Value> = std::fs::read(&path).ok().and_then(|b| serde_json::from_slice(&b).ok());
            match doc.as_ref().and_then(|d| d["property"].as_str()).and_then(find) {
                Some(p) => harness::replay(p.as_ref(), &path),
                None => {
                    eprintln!("cannot determine property of {}", path);
                    2
                }
            }
        }
        Some("tracehash") => {
            // determinism self-test: print "<index> <hash of canonical trace>" for a range of scenarios
            let id = args.get(2).cloned().unwrap_or_default();
            let start: usize = args.get(3).and_then(|s| s.parse().ok()).unwrap_or(0);
            let count: usize = args.get(4).and_then(|s| s.parse().ok()).unwrap_or(16);
            let workers: usize = std::env::var("VERIF_WORKERS").ok().and_then(|s| s.parse().ok()).unwrap_or(16);
            match find(&id) {
                Some(p) => {
                    let seed = harness::verif_seed();
                    let next = std::sync::atomic::AtomicUsize::new(start);
                    let res = std::sync::Mutex::new(Vec::new());
                    std::thread::scope(|sc| {
                        for _ in 0..workers.max(1) {
                            sc.spawn(|| loop {
                                let i = next.fetch_add(1, std::sync::atomic::Ordering::SeqCst);
                                if i >= start + count {
                                    break;
                                }
                                let s = p.generate(seed, i, Tier::Quick);
                                let o = p.execute(&s);
                                if let Ok(d) = std::env::var("VERIF_DUMP_TRACES") {
                                    let _ = std::fs::create_dir_all(&d);
                                    let mut t = o.trace.join("\n");
                                    t.push_str(&format!("\nskipped={:?} violations={:?} advisories={:?}\n", o.skipped, o.violations, o.advisories));
                                    let _ = std::fs::write(format!("{}/{}-{}.txt", d, id, i), t);
                                }
                                let line = match &o.skipped {
                                    Some(r) => format!("{} skipped {}", i, r),
                                    None => format!("{} {:016x} violations={}", i, prng::hash_str(&o.trace.join("\n")), o.violations.len()),
                                };
                                res.lock().unwrap().push((i, line));
                            });
                        }
                    });
                    let mut v = res.into_inner().unwrap();
                    v.sort();
                    for (_, l) in v {
                        println!("{}", l);
                    }
                    world::cleanup_scratch();
                    0
                }
                None => 2,
            }
        }
        Some("gen") => {
            // print the scenario for (property, index)
            let id = args.get(2).cloned().unwrap_or_default();
            let idx: usize = args.get(3).and_then(|s| s.parse().ok()).unwrap_or(0);
            match find(&id) {
                Some(p) => {
                    println!("{}", serde_json::to_string_pretty(&p.generate(harness::verif_seed(), idx, Tier::Quick)).unwrap());
                    0
                }
                None => 2,
            }
        }
        Some("one") => {
            // execute one scenario by index and print its trace
            let id = args.get(2).cloned().unwrap_or_default();
            let idx: usize = args.get(3).and_then(|s| s.parse().ok()).unwrap_or(0);
            match find(&id) {
                Some(p) => {
                    let sc = p.generate(harness::verif_seed(), idx, Tier::Quick);
                    let out = p.execute(&sc);
                    for l in &out.trace {
                        println!("  {}", l);
                    }
                    println!("skipped={:?} nontrivial={} violations={:?} advisories={:?}", out.skipped, out.nontrivial, out.violations, out.advisories);
                    world::cleanup_scratch();
                    0
                }
                None => 2,
            }
        }
        _ => {
            eprintln!("usage: vsim check <ID> quick|thorough | replay <file> | gen <ID> <idx> | one <ID> <idx>");
            2
        }
    };
    std::process::exit(code);
}
