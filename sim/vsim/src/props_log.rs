//! C08: stored logs are byte-exact and isolated per task.
//! Primary engine: vclock (E-A, in-process virtual time) run as batches in sub-processes;
//! end-to-end engine: real `run` with concurrent scripted children (E-B), incl. `log show`.
use crate::harness::{scenario_seed, Outcome, Property, Tier};
use crate::logparse::parse_blocks;
use crate::prng::Rng;
use crate::proto::hex;
use crate::rundrv::{drive_run_l, Behav, OutStep, RunOpts, RunScript, RunTrace, Strategy};
use crate::runworld::default_hang_ms;
use crate::world::{bin_dir, read_zst, sha256_hex, CmdFile, TargetSpec, World, WorldSpec};
use serde::{Deserialize, Serialize};
use serde_json::{json, Value};
use std::collections::BTreeMap;
use std::time::Duration;

#[derive(Serialize, Deserialize, Clone, Debug)]
pub struct LogWorldScenario {
    pub spec: WorldSpec,
    pub script: RunScript,
    /// log show filters to try afterwards: (targets, commands, stdout, stderr)
    pub shows: Vec<(Vec<String>, Vec<String>, bool, bool)>,
    /// a healthy `log tail` listener attached for the whole run (its faults are C15's subject): the stored
    /// bytes must be exactly the written ones whether or not somebody is listening
    #[serde(default)]
    pub listener: Option<crate::props_listen::ListenerCfg>,
}

pub fn gen_payload(rng: &mut Rng, tag: &str, allow_binary: bool, newline_terminated_only: bool) -> Vec<OutStep> {
    let n = rng.below(7);
    let mut outs = vec![];
    let mut seq = [0u32; 3];
    for _ in 0..n {
        let fd = if rng.chance(1, 2) { 1u8 } else { 2 };
        seq[fd as usize] += 1;
        let s = seq[fd as usize];
        let bytes: Vec<u8> = match rng.below(if newline_terminated_only { 4 } else { 9 }) {
            0 | 1 => format!("{} fd{} #{} line\n", tag, fd, s).into_bytes(),
            2 => format!("{} fd{} #{} first\n{} fd{} #{}b second\n", tag, fd, s, tag, fd, s).into_bytes(),
            3 => {
                let mut v = format!("{} fd{} #{} long ", tag, fd, s).into_bytes();
                v.extend(std::iter::repeat(b'x').take(rng.range(100, 20000)));
                v.push(b'\n');
                v
            }
            4 | 5 => format!("{} fd{} #{} part", tag, fd, s).into_bytes(),
            6 => b" ...rest\n".to_vec(),
            7 if allow_binary => vec![0, 1, 2, b'\r', b'\n', 0xff, 0xc3, 0x28, b'\n'],
            _ => format!("{} fd{} #{} tail without newline", tag, fd, s).into_bytes(),
        };
        outs.push(OutStep { fd, hex: hex(&bytes), pause_ms: 0, close: false });
    }
    close_one_stream_early(rng, &mut outs);
    outs
}

/// One script in six: the child closes one of its two streams part-way and goes on with the other.
pub fn close_one_stream_early(rng: &mut Rng, outs: &mut Vec<OutStep>) {
    if outs.len() >= 2 && rng.chance(1, 6) {
        let f = if rng.chance(1, 2) { 1u8 } else { 2 };
        let k = rng.below(outs.len());
        let mut kept: Vec<OutStep> = vec![];
        for (i, o) in outs.drain(..).enumerate() {
            if i == k {
                kept.push(OutStep { fd: f, hex: "-".into(), pause_ms: 0, close: true });
            }
            if i >= k && o.fd == f {
                continue;
            }
            kept.push(o);
        }
        *outs = kept;
    }
}

/// A stalled disk under a chatty group: the first write to some stdout archive takes 4 s; meanwhile a
/// dozen tasks keep producing a line every few milliseconds (so the compressor's queue fills and readers
/// block behind it), write their last lines and exit while everything downstream is still stuck.
fn gen_disk_stall(rng: &mut Rng) -> LogWorldScenario {
    let nt = rng.range(10, 13);
    let mut targets = vec![];
    let mut cmd_files = vec![];
    for i in 0..nt {
        let path = format!("t{:02}", i);
        cmd_files.push(CmdFile { target: path.clone(), command: "build".into(), rel: WorldSpec::default_cmd_rel(&path, "build"), exec: true, broken: false });
        targets.push(TargetSpec { path, ..Default::default() });
    }
    let spec = WorldSpec { targets, cmd_files, files: vec![], sequences: vec![], max_retained_runs: 2, gitignore: vec![], git: false, lock_host: None, default_ports: 0, omit_max_retained: false, sha256_repo: false, clock_plan: vec![], script_wrappers: 0 };
    let mut script = RunScript::simple(RunOpts { commands: vec!["build".into()], ..Default::default() });
    let rounds = rng.range(105, 130);
    for (ti, cf) in spec.cmd_files.iter().enumerate() {
        let mut outs = vec![];
        if ti == 0 {
            // the pump: enough poorly compressible bytes for the encoder to emit its first block
            let mut v = Vec::new();
            let mut n = 0;
            while v.len() < 300 * 1024 {
                n += 1;
                v.extend_from_slice(format!("build@{} fd1 pump{} ", cf.target, n).as_bytes());
                for _ in 0..100 {
                    v.push(b"ABCDEFGHIJKLMNOPQRSTUVWXYZabcdefghijklmnopqrstuvwxyz0123456789+/"[(rng.next_u64() & 63) as usize]);
                }
                v.push(b'\n');
            }
            outs.push(OutStep { fd: 1, hex: hex(&v), pause_ms: 0, close: false });
        }
        for r in 0..rounds {
            outs.push(OutStep { fd: 1, hex: hex(format!("build@{} fd1 #{} round\n", cf.target, r).as_bytes()), pause_ms: if ti == 0 { 5 } else { 0 }, close: false });
        }
        outs.push(OutStep { fd: 1, hex: hex(format!("build@{} fd1 last words\n", cf.target).as_bytes()), pause_ms: 0, close: false });
        script.behav.push(Behav { command: "build".into(), target: cf.target.clone(), outs, code: 0, exit_pause_ms: 0, early_exit: false, hold_pipes_ms: 0, outs_again: vec![] });
    }
    script.strategy = Strategy::RoundRobin;
    script.flush_ms = Some(5);
    script.workers = Some(4);
    script.rand_seed = Some(rng.next_u64() % 1_000_000);
    script.fs_write_stall = Some("stdout.zst:1:4000".into());
    LogWorldScenario { spec, script, shows: vec![(vec![], vec![], true, true)], listener: None }
}

/// A group of 66-80 tasks that are all alive at once; every task writes on both streams, waits while all the
/// others take their turn, and writes again (more than 128 archives are being written in turns).
fn gen_many_alive(rng: &mut Rng) -> LogWorldScenario {
    let nt = rng.range(66, 80);
    let mut targets = vec![];
    let mut cmd_files = vec![];
    for i in 0..nt {
        let path = format!("t{:02}", i);
        cmd_files.push(CmdFile { target: path.clone(), command: "build".into(), rel: WorldSpec::default_cmd_rel(&path, "build"), exec: true, broken: false });
        targets.push(TargetSpec { path, ..Default::default() });
    }
    let spec = WorldSpec { targets, cmd_files, files: vec![], sequences: vec![], max_retained_runs: 2, gitignore: vec![], git: false, lock_host: None, default_ports: 0, omit_max_retained: false, sha256_repo: false, clock_plan: vec![], script_wrappers: 0 };
    let mut script = RunScript::simple(RunOpts { commands: vec!["build".into()], ..Default::default() });
    let rounds = rng.range(2, 3);
    for cf in &spec.cmd_files {
        let mut outs = vec![];
        for r in 0..rounds {
            for fd in [1u8, 2u8] {
                outs.push(OutStep { fd, hex: hex(format!("build@{} fd{} round {} {}\n", cf.target, fd, r, "m".repeat(rng.below(50))).as_bytes()), pause_ms: 0, close: false });
            }
        }
        script.behav.push(Behav { command: "build".into(), target: cf.target.clone(), outs, code: 0, exit_pause_ms: 0, early_exit: false, hold_pipes_ms: 0, outs_again: vec![] });
    }
    script.strategy = Strategy::RoundRobin;
    script.flush_ms = Some(5);
    script.workers = Some(*rng.pick(&[2u32, 4, 16]));
    script.rand_seed = Some(rng.next_u64() % 1_000_000);
    LogWorldScenario { spec, script, shows: vec![(vec![], vec![], true, true)], listener: None }
}

fn gen_log_world(seed: u64, idx: usize) -> LogWorldScenario {
    let mut rng = Rng::new(scenario_seed(seed, "C08w", idx));
    if rng.chance(1, 40) {
        return gen_disk_stall(&mut rng);
    }
    if rng.chance(1, 30) {
        return gen_many_alive(&mut rng);
    }
    let nt = if rng.chance(1, 4) { rng.range(8, 16) } else { rng.range(1, 5) };
    let cmds: Vec<String> = if rng.chance(1, 2) { vec!["build".into()] } else { vec!["build".into(), "test".into()] };
    let mut targets = vec![];
    let mut cmd_files = vec![];
    for i in 0..nt {
        let path = if i > 0 && rng.chance(1, 6) { format!("t00/n{:02}", i) } else { format!("t{:02}", i) };
        for c in &cmds {
            cmd_files.push(CmdFile { target: path.clone(), command: c.clone(), rel: WorldSpec::default_cmd_rel(&path, c), exec: true, broken: false });
        }
        targets.push(TargetSpec { path, ..Default::default() });
    }
    let spec = WorldSpec { targets, cmd_files, files: vec![], sequences: vec![], max_retained_runs: 2, gitignore: vec![], git: false, lock_host: None, default_ports: 0, omit_max_retained: false, sha256_repo: false, clock_plan: vec![], script_wrappers: 0 };
    let mut script = RunScript::simple(RunOpts { commands: cmds.clone(), ..Default::default() });
    let real_pause = rng.chance(1, 20);
    for cf in &spec.cmd_files {
        let mut outs = gen_payload(&mut rng, &format!("{}@{}", cf.command, cf.target), true, false);
        if real_pause && !outs.is_empty() && rng.chance(1, 2) {
            // a real pause in mid-line against the un-knobbed 500 ms tick
            let k = rng.below(outs.len());
            outs.insert(k, OutStep { fd: 1, hex: hex(format!("{}@{} held-open ", cf.command, cf.target).as_bytes()), pause_ms: 0, close: false });
            outs.insert(k + 1, OutStep { fd: 1, hex: hex(b"after the pause\n"), pause_ms: 650, close: false });
        }
        script.behav.push(Behav { command: cf.command.clone(), target: cf.target.clone(), outs, code: 0, exit_pause_ms: 0, early_exit: false, hold_pipes_ms: 0, outs_again: vec![] });
    }
    if rng.chance(1, 12) {
        // one task writes a poorly compressible volume beyond one zstd block on one stream
        let bi = rng.below(script.behav.len());
        let tag = format!("{}@{}", script.behav[bi].command, script.behav[bi].target);
        let fd = if rng.chance(1, 2) { 1u8 } else { 2 };
        let chunks = rng.range(3, 8);
        for k in 0..chunks {
            let mut v = Vec::new();
            let total = 40 * 1024 + rng.below(60 * 1024);
            let mut n = 0;
            while v.len() < total {
                n += 1;
                v.extend_from_slice(format!("{} fd{} vol{}.{} ", tag, fd, k, n).as_bytes());
                let long = rng.chance(1, 10);
                let ll = 30 + rng.below(if long { 140_000 } else { 160 });
                for _ in 0..ll {
                    v.push(b"ABCDEFGHIJKLMNOPQRSTUVWXYZabcdefghijklmnopqrstuvwxyz0123456789+/"[(rng.next_u64() & 63) as usize]);
                }
                v.push(b'\n');
            }
            script.behav[bi].outs.push(OutStep { fd, hex: hex(&v), pause_ms: 0, close: false });
        }
    }
    if rng.chance(1, 6) && script.behav.len() >= 2 {
        // one task fails (its own log and the logs of every task that completed must still be exact);
        // it is released last so that the others have completed
        let bi = rng.below(script.behav.len());
        script.behav[bi].code = *rng.pick(&[1, 3, 70]);
        script.prio = vec![(script.behav[bi].target.clone(), 1)];
        if rng.chance(2, 3) {
            // its last words are long, and the disk stalls on the first block of a stdout archive: the
            // compressor is certainly still behind when the failure is noticed
            script.fs_write_stall = Some(format!("stdout.zst:1:{}", rng.range(200, 600)));
            let tag = format!("{}@{}", script.behav[bi].command, script.behav[bi].target);
            // several separate writes, a few flush intervals apart: the later ones queue up behind the stalled one
            for (k, fd) in [1u8, 2u8, 1u8, 1u8].iter().cloned().enumerate() {
                let mut v = Vec::new();
                let total = if k == 0 { 150 * 1024 + rng.below(150 * 1024) } else { 20 * 1024 + rng.below(60 * 1024) };
                let mut n = 0;
                while v.len() < total {
                    n += 1;
                    v.extend_from_slice(format!("{} fd{} final{} ", tag, fd, n).as_bytes());
                    for _ in 0..(40 + rng.below(120)) {
                        v.push(b"ABCDEFGHIJKLMNOPQRSTUVWXYZabcdefghijklmnopqrstuvwxyz0123456789+/"[(rng.next_u64() & 63) as usize]);
                    }
                    v.push(b'\n');
                }
                script.behav[bi].outs.push(OutStep { fd, hex: hex(&v), pause_ms: if k == 0 { 0 } else { 25 }, close: false });
            }
        }
    }
    script.strategy = *rng.pick(&[Strategy::Uniform, Strategy::Uniform, Strategy::PlanOrder, Strategy::Reverse, Strategy::HoldM]);
    if !script.prio.is_empty() {
        script.strategy = Strategy::Prio;
    }
    script.sched_seed = rng.next_u64();
    script.flush_ms = if real_pause { None } else { Some(*rng.pick(&[5u64, 20, 100, 500])) };
    script.workers = Some(*rng.pick(&[1u32, 2, 4, 16]));
    script.rand_seed = Some(rng.next_u64() % 1_000_000);
    let mut shows = vec![(vec![], vec![], true, true)];
    let t0 = spec.targets[rng.below(spec.targets.len())].path.clone();
    shows.push((vec![t0], vec![], true, rng.chance(1, 2)));
    shows.push((vec![], vec![cmds[rng.below(cmds.len())].clone()], rng.chance(1, 2), true));
    // one world in ten: `build` is part of a sequence and is also named in --commands, so it runs twice in one
    // invocation; the second time it writes much less than the first (the archive is written anew)
    let mut spec = spec;
    if rng.chance(1, 10) && script.fs_write_stall.is_none() {
        spec.sequences = vec![("ci".to_string(), cmds.clone())];
        script.opts = RunOpts { sequences: vec!["ci".into()], commands: vec!["build".into()], ..Default::default() };
        for b in script.behav.iter_mut().filter(|b| b.command == "build") {
            b.outs_again = vec![OutStep { fd: 1, hex: hex(format!("build@{} fd1 second time\n", b.target).as_bytes()), pause_ms: 0, close: false }];
            if b.outs.len() < 2 && b.code == 0 {
                // make sure the first time is the longer one
                let mut v = Vec::new();
                for n in 0..400 {
                    v.extend_from_slice(format!("build@{} fd1 first time line {} {}\n", b.target, n, rng.next_u64()).as_bytes());
                }
                b.outs.push(OutStep { fd: 1, hex: hex(&v), pause_ms: 0, close: false });
            }
        }
    }
    let listener = if rng.chance(1, 4) {
        let both = rng.chance(1, 2);
        Some(crate::props_listen::ListenerCfg { stdout: both || rng.chance(1, 2), stderr: true, targets: vec![], commands: vec![] })
    } else {
        None
    };
    LogWorldScenario { spec, script, shows, listener }
}

/// One two-command world in six gets command names that differ only in one character outside [A-Za-z0-9._-]
/// (`lint:fix` / `lint_fix`, `gen%proto` / `gen+proto`, ...): whatever a tool does with such names on disk, the two
/// commands' logs must not end up in one place. Own generator, applied to the finished scenario, so that existing
/// seeds keep their worlds otherwise.
fn odd_command_names(sc: &mut LogWorldScenario, seed: u64, idx: usize) {
    let mut rng = Rng::new(scenario_seed(seed, "C08w-names", idx));
    let has = |c: &str| sc.spec.cmd_files.iter().any(|f| f.command == c);
    if !(has("build") && has("test")) || !rng.chance(1, 6) {
        return;
    }
    let (a, b) = *rng.pick(&[("lint:fix", "lint_fix"), ("gen%proto", "gen+proto"), ("a@b", "a#b"), ("x=1", "x~1"), ("pre,post", "pre;post")]);
    let (a, b) = if rng.chance(1, 2) { (a, b) } else { (b, a) };
    let ren = |c: &mut String| {
        if c == "build" {
            *c = a.to_string();
        } else if c == "test" {
            *c = b.to_string();
        }
    };
    for f in sc.spec.cmd_files.iter_mut() {
        ren(&mut f.command);
        f.rel = WorldSpec::default_cmd_rel(&f.target, &f.command);
    }
    for (_, cs) in sc.spec.sequences.iter_mut() {
        cs.iter_mut().for_each(ren);
    }
    sc.script.opts.commands.iter_mut().for_each(ren);
    for bh in sc.script.behav.iter_mut() {
        ren(&mut bh.command);
    }
    for (_, cs, _, _) in sc.shows.iter_mut() {
        cs.iter_mut().for_each(ren);
    }
}

/// stored log files of the latest run, decoded independently: (file, target, command) -> bytes
pub fn stored_logs(w: &World, tr: &RunTrace, spec: &WorldSpec, commands: &[String]) -> Result<BTreeMap<(String, String, String), Vec<u8>>, String> {
    let doc = tr.result_json().ok_or("no result document")?;
    let run_path = doc["out"]["run"]["path"].as_str().ok_or("no out.run.path")?.to_string();
    let mut m = BTreeMap::new();
    for t in &spec.targets {
        let h = sha256_hex(t.path.as_bytes());
        if doc["out"]["run"]["targets"][&t.path].as_str() != Some(h.as_str()) {
            // target not part of the run
            if doc["out"]["run"]["targets"].get(&t.path).is_some() {
                return Err(format!("out.run.targets[{}] is not sha256(target)", t.path));
            }
            continue;
        }
        for c in commands {
            for f in ["stdout.zst", "stderr.zst"] {
                let p = std::path::Path::new(&run_path).join(c).join(&h).join(f);
                if p.exists() {
                    m.insert((f.to_string(), t.path.clone(), c.clone()), read_zst(&p)?);
                }
            }
        }
    }
    let _ = w;
    Ok(m)
}

pub fn written_logs(tr: &RunTrace) -> BTreeMap<(String, String, String), Vec<u8>> {
    let mut m = BTreeMap::new();
    for h in &tr.helpers {
        m.insert(("stdout.zst".to_string(), h.target.clone(), h.command.clone()), h.written[1].clone());
        m.insert(("stderr.zst".to_string(), h.target.clone(), h.command.clone()), h.written[2].clone());
    }
    m
}

fn show_bytes(b: &[u8]) -> String {
    let s = crate::proto::show(&b[..b.len().min(90)]);
    if b.len() > 90 {
        format!("{}...({} bytes)", s, b.len())
    } else {
        s
    }
}

/// compare stored logs with what each process wrote (every process here ran to completion)
pub fn check_stored(stored: &BTreeMap<(String, String, String), Vec<u8>>, written: &BTreeMap<(String, String, String), Vec<u8>>, out: &mut Outcome) {
    for (k, w) in written {
        match stored.get(k) {
            None => out.violate("stored_bytes", "missing_file", format!("no stored log for {} of '{}' for '{}'", k.0, k.2, k.1)),
            Some(s) if s != w => {
                // whose bytes are these?
                let other = written.iter().any(|(k2, w2)| k2 != k && !w2.is_empty() && !s.is_empty() && w2 == s);
                let tag = format!("{}@{} ", k.2, k.1);
                let foreign_tag = String::from_utf8_lossy(s).split('\n').any(|l| l.contains('@') && l.contains(" fd") && !l.starts_with(&tag) && !w.windows(l.len().max(1)).any(|x| x == l.as_bytes()));
                let (check, class) = if other || foreign_tag {
                    ("foreign_bytes", "other_task_bytes")
                } else if s.len() < w.len() {
                    ("stored_bytes", "bytes_lost")
                } else if s.len() > w.len() {
                    ("stored_bytes", "bytes_duplicated")
                } else {
                    ("stored_bytes", "bytes_differ")
                };
                let pos = s.iter().zip(w.iter()).position(|(a, b)| a != b).unwrap_or(s.len().min(w.len()));
                out.violate(check, class, format!("{} of '{}' for '{}': stored {} bytes, process wrote {} bytes; first difference at offset {}: stored {:?} vs written {:?}", k.0, k.2, k.1, s.len(), w.len(), pos, show_bytes(&s[pos.min(s.len())..]), show_bytes(&w[pos.min(w.len())..])));
            }
            _ => {}
        }
        if !out.violations.is_empty() {
            return;
        }
    }
}

fn exec_log_world(sc: &LogWorldScenario) -> Outcome {
    let mut w = match World::create(&sc.spec, true) {
        Ok(w) => w,
        Err(e) => return Outcome::skip(&format!("world: {}", e)),
    };
    if let Some(s) = sc.script.rand_seed {
        w.set_rand_seed(s);
    }
    let l = match &sc.listener {
        Some(c) => match crate::props_listen::start_listener(&mut w, c) {
            Ok(l) => Some(l),
            Err(e) => return Outcome::skip(&format!("listener: {}", e)),
        },
        None => None,
    };
    let tr = drive_run_l(&mut w, "M1", &sc.script, Duration::from_millis(default_hang_ms()), l);
    if let Some(l) = l {
        let _ = crate::props_listen::finish_listener(&mut w, l);
    }
    let mut out = Outcome::default();
    if l.is_some() {
        out.probe("e2e_run_with_listener_attached", 1);
    }
    out.trace = tr.log.clone();
    out.steps = tr.steps as u64;
    let probes = w.ctl.as_mut().map(|c| c.take_probes()).unwrap_or_default();
    for (k, v) in probes {
        out.probe(&k, v);
    }
    out.sim_ms = sc.script.behav.iter().flat_map(|b| b.outs.iter().map(|o| o.pause_ms as u64)).sum();
    if sc.script.fs_write_stall.is_some() {
        out.fault("disk_stalled_for_seconds_under_a_chatty_group", 1);
        out.sim_ms += 4000;
    }
    let scripted_failure = sc.script.behav.iter().any(|b| b.code != 0);
    let want_code = if scripted_failure { 1 } else { 0 };
    if tr.hang.is_some() || tr.code() != Some(want_code) {
        out.violate("capture_ok", "run_failed", format!("run did not end as its children dictate: hang {:?} exit {:?} (expected {}) {}", tr.hang, tr.code(), want_code, tr.stderr_str().trim()));
        return out;
    }
    let mut written = written_logs(&tr);
    if scripted_failure {
        out.fault("failing_task_in_a_group_with_output", 1);
        // only tasks that ran to completion under monorail's eyes are judged (success, or error with a code)
        if let Some(doc) = tr.result_json() {
            let rg = crate::runworld::result_groups(&doc);
            written.retain(|k, _| rg.iter().any(|(c, gs)| *c == k.2 && gs.iter().any(|g| g.get(&k.1).map(|r| r.status == "success" || (r.status == "error" && r.code.is_some())).unwrap_or(false))));
        }
    }
    let mut all_cmds: Vec<String> = vec![];
    for c in crate::runworld::expanded_commands(&sc.spec, &sc.script.opts) {
        if !all_cmds.contains(&c) {
            all_cmds.push(c);
        }
    }
    let stored = match stored_logs(&w, &tr, &sc.spec, &all_cmds) {
        Ok(s) => s,
        Err(e) => {
            out.violate("stored_bytes", "unreadable", format!("stored logs unreadable: {}", e));
            return out;
        }
    };
    check_stored(&stored, &written, &mut out);
    if !out.violations.is_empty() {
        return out;
    }
    // log show: one header per selected non-empty log followed by exactly its bytes
    for (ts, cs, so, se) in sc.shows.iter().filter(|_| !scripted_failure) {
        let mut a = vec!["log".to_string(), "show".into()];
        if *so {
            a.push("--stdout".into());
        }
        if *se {
            a.push("--stderr".into());
        }
        if !so && !se {
            continue;
        }
        if !ts.is_empty() {
            a.push("-t".into());
            a.extend(ts.iter().cloned());
        }
        if !cs.is_empty() {
            a.push("-c".into());
            a.extend(cs.iter().cloned());
        }
        let o = w.cli_v(&a);
        out.sub_evals += 1;
        if o.code != Some(0) {
            out.violate("log_show_blocks", "failed", format!("log show {:?} failed: {}", a, o.err_str().trim()));
            return out;
        }
        let (pre, blocks) = parse_blocks(&o.stdout);
        if !pre.is_empty() {
            out.violate("log_show_blocks", "bytes_before_header", format!("log show {:?} printed bytes before any header: {:?}", a, show_bytes(&pre)));
            return out;
        }
        let mut want: BTreeMap<(String, String, String), Vec<u8>> = BTreeMap::new();
        for (k, v) in &written {
            let sel = (ts.is_empty() || ts.contains(&k.1)) && (cs.is_empty() || cs.contains(&k.2)) && ((k.0 == "stdout.zst" && *so) || (k.0 == "stderr.zst" && *se));
            if sel && !v.is_empty() {
                want.insert(k.clone(), v.clone());
            }
        }
        let mut got: BTreeMap<(String, String, String), Vec<u8>> = BTreeMap::new();
        for b in &blocks {
            let k = (b.file.clone(), b.target.clone(), b.command.clone());
            if got.insert(k.clone(), b.bytes.clone()).is_some() {
                out.violate("log_show_blocks", "header_twice", format!("log show {:?}: header for {:?} printed twice", a, k));
                return out;
            }
        }
        if got != want {
            let missing: Vec<_> = want.keys().filter(|k| !got.contains_key(*k)).collect();
            let extra: Vec<_> = got.keys().filter(|k| !want.contains_key(*k)).collect();
            let class = if !extra.is_empty() { "unselected_or_empty_log_shown" } else if !missing.is_empty() { "selected_log_missing" } else { "bytes_differ" };
            out.violate("log_show_blocks", class, format!("log show {:?}: blocks differ from the selected non-empty logs (missing {:?}, extra {:?})", a, missing, extra));
            return out;
        }
    }
    let concurrent = sc.spec.targets.len();
    out.nontrivial = written.values().filter(|v| !v.is_empty()).count() >= 2;
    out.probe("e2e_concurrent_tasks", concurrent as u64);
    out.signature = format!("e2e|{}|{:?}|{:?}|{}", concurrent, sc.script.flush_ms, sc.script.strategy, crate::prng::hash_str(&format!("{:?}", sc.script.behav.iter().map(|b| b.outs.iter().map(|o| (o.fd, o.hex.len())).collect::<Vec<_>>()).collect::<Vec<_>>())));
    out
}

fn run_vclock(args: &[String]) -> Result<Value, String> {
    let o = std::process::Command::new(bin_dir().join("vclock")).args(args).output().map_err(|e| format!("cannot run vclock: {}", e))?;
    if !o.status.success() {
        return Err(format!("vclock failed: {}", String::from_utf8_lossy(&o.stderr)));
    }
    serde_json::from_slice(&o.stdout).map_err(|e| format!("vclock output: {}", e))
}

pub struct C08;

const BATCH: usize = 1000;

impl Property for C08 {
    fn id(&self) -> &'static str {
        "C08"
    }
    fn count(&self, tier: Tier) -> usize {
        match tier {
            Tier::Quick => 64 + 250,
            Tier::Thorough => 3000 + 4000,
        }
    }
    fn generate(&self, seed: u64, idx: usize, tier: Tier) -> Value {
        let nb = if tier == Tier::Quick { 64 } else { 3000 };
        if idx < nb {
            json!({"engine": "vclock", "seed": scenario_seed(seed, "C08", 0), "start": idx * BATCH, "count": BATCH})
        } else {
            let mut sc = gen_log_world(seed, idx - nb);
            odd_command_names(&mut sc, seed, idx - nb);
            json!({"engine": "world", "scenario": serde_json::to_value(sc).unwrap()})
        }
    }
    fn execute(&self, v: &Value) -> Outcome {
        match v["engine"].as_str() {
            Some("vclock") => {
                let r = match run_vclock(&["batch".into(), v["seed"].to_string(), v["start"].to_string(), v["count"].to_string()]) {
                    Ok(r) => r,
                    Err(e) => return Outcome::skip(&format!("harness: {}", e)),
                };
                let mut out = Outcome::default();
                out.extra_evals = r["evaluated"].as_u64().unwrap_or(1).saturating_sub(1);
                out.sigs = r["sigs"].as_array().map(|a| a.iter().filter_map(|x| x.as_u64()).collect()).unwrap_or_default();
                out.nontrivial = false; // distinct cases are reported through sigs
                out.sim_ms = 0;
                if let Some(p) = r["probes"].as_object() {
                    for (k, n) in p {
                        out.probe(k, n.as_u64().unwrap_or(0));
                    }
                }
                out.probe("virtual_ms_covered", r["virtual_ms"].as_u64().unwrap_or(0));
                out.fault("cancel_configuration_runs", r["cancel_runs"].as_u64().unwrap_or(0));
                out.fault("flush_tick_with_partial_line", r["probes"]["tick_with_partial_line"].as_u64().unwrap_or(0));
                out.fault("tick_tie_with_data", r["probes"]["tie_tick_vs_data"].as_u64().unwrap_or(0));
                out.trace.push(format!("vclock batch start={} count={} virtual_ms={} probes={} distinct={}", v["start"], v["count"], r["virtual_ms"], r["probes"], out.sigs.len()));
                if let Some(f) = r["failures"].as_array().and_then(|a| a.first()) {
                    let check = f["check"].as_str().unwrap_or("stored_bytes");
                    let class = f["class"].as_str().unwrap_or("?");
                    let class = if f["cancel"] == true { format!("{}_under_cancel", class) } else { class.to_string() };
                    out.violate(check, &class, format!("E-A script #{}: {}", f["index"], f["msg"].as_str().unwrap_or("")));
                    out.explicit = Some(json!({"engine": "vclock-one", "script": f["script"], "cancel": f["cancel"]}));
                }
                out
            }
            Some("vclock-one") => {
                let _ = std::fs::create_dir_all(crate::world::scratch_base());
                let tmp = crate::world::scratch_base().join(format!("vclock-one-{}-{}.json", std::process::id(), crate::prng::hash_str(&v["script"].to_string())));
                if std::fs::write(&tmp, v["script"].to_string()).is_err() {
                    return Outcome::skip("harness: cannot write script");
                }
                let r = run_vclock(&["one".into(), tmp.to_string_lossy().into_owned()]);
                let _ = std::fs::remove_file(&tmp);
                let r = match r {
                    Ok(r) => r,
                    Err(e) => return Outcome::skip(&format!("harness: {}", e)),
                };
                let mut out = Outcome::default();
                out.trace.push(format!("vclock one: {}", r));
                if !r["failure"].is_null() {
                    let f = &r["failure"];
                    let class = f["class"].as_str().unwrap_or("?");
                    let class = if v["cancel"] == true { format!("{}_under_cancel", class) } else { class.to_string() };
                    out.violate(f["check"].as_str().unwrap_or("stored_bytes"), &class, f["msg"].as_str().unwrap_or("").to_string());
                }
                out
            }
            Some("world") => match serde_json::from_value::<LogWorldScenario>(v["scenario"].clone()) {
                Ok(sc) => exec_log_world(&sc),
                Err(e) => Outcome::skip(&format!("bad scenario {}", e)),
            },
            _ => Outcome::skip("bad scenario: engine"),
        }
    }
    fn shrink(&self, v: &Value) -> Vec<Value> {
        let mut outv = vec![];
        if v["engine"] == "world" {
            if let Ok(sc) = serde_json::from_value::<LogWorldScenario>(v["scenario"].clone()) {
                if sc.listener.is_some() {
                    let mut s = sc.clone();
                    s.listener = None;
                    outv.push(json!({"engine": "world", "scenario": serde_json::to_value(s).unwrap()}));
                }
                for i in (0..sc.spec.targets.len()).rev() {
                    if sc.spec.targets.len() > 1 {
                        let mut s = sc.clone();
                        let p = s.spec.targets.remove(i).path;
                        if s.spec.targets.iter().any(|t| crate::models::inside_or_eq(&t.path, &p)) {
                            continue;
                        }
                        s.spec.cmd_files.retain(|c| c.target != p);
                        s.script.behav.retain(|b| b.target != p);
                        for sh in s.shows.iter_mut() {
                            sh.0.retain(|t| *t != p);
                        }
                        outv.push(json!({"engine": "world", "scenario": serde_json::to_value(s).unwrap()}));
                    }
                }
                for bi in 0..sc.script.behav.len() {
                    for oi in (0..sc.script.behav[bi].outs.len()).rev() {
                        let mut s = sc.clone();
                        s.script.behav[bi].outs.remove(oi);
                        outv.push(json!({"engine": "world", "scenario": serde_json::to_value(s).unwrap()}));
                    }
                }
            }
        }
        outv
    }
    fn rule(&self) -> String {
        format!("E-A (vclock): batches of {} seeded scripts, 1-8 tasks x (stdout, stderr), up to 8 (one in ten: 32) chunks per stream with virtual arrival times drawn from a mixture centred on the 500 ms tick lattice (k*500 + {{-250,-1,0,+1,+250}}), chunk classes: line, two lines, partial line, rest of line, bare newline, CRLF, binary/invalid UTF-8, 100 KiB line, 2000 one-byte lines, 9 KB partial; EOF at / just before / just after a tick; tokio select! order seeded per script; one script in eight uses the relaxed cancellation configuration (reported separately as *_under_cancel). Oracle: every stored file exists and decodes to exactly the script's bytes for that stream. E-B (world): real run with 1-16 concurrent scripted children, flush knob in {{5,20,100,500}} ms, one in twenty with a real 650 ms pause in mid-line against the un-knobbed tick; stored files decoded independently + log show blocks under three filter combinations. Round 11 (E-B worlds): one two-command world in six has command names that differ only in one character outside [A-Za-z0-9._-] (lint:fix / lint_fix, gen%proto / gen+proto ...). Non-trivial (E-A) = the script has a data/tick tie, a pause that straddles a tick in mid-line, or the SUT-side probe tick_with_partial_line fired; distinct = hash of the per-stream sequence of (chunk class, phase relative to the tick, tick index). Non-trivial (E-B) = >= 2 non-empty logs", BATCH)
    }
    fn components(&self) -> Value {
        json!({
            "E-A real": ["monorail::app::log::process_reader, process_bufs, CompressorClient, Compressor (real OS compressor threads)", "zstd", "tokio runtime (current_thread, paused clock, seeded select!)"],
            "E-A stub": ["child processes and pipes (scripted AsyncRead)", "clock (tokio paused clock)", "wiring of one target group (verif::capture replicates ~40 lines of process_plan)"],
            "E-B real": ["monorail binary end to end incl. the real group wiring", "kernel pipes", "log show"],
            "E-B stub": ["children are vhelper"]
        })
    }
    fn assumptions(&self) -> Vec<String> {
        vec![
            "compressor threads only consume from FIFO channels (capacity 1000, never reached by generated scripts), so the async-side schedule is a function of (script, seed)".into(),
            "E-A drives verif::capture, a replica of the group wiring; the real wiring is exercised by the E-B scenarios of the same check".into(),
        ]
    }
}
