//! The controller: owns the unix socket every actor of a world reports to, starts and
//! kills processes, and hands events to the scenario interpreter one at a time.
use crate::proto::{unhex, unhex_str};
use std::collections::{HashMap, VecDeque};
use std::io::{BufRead, BufReader, Read, Write};
use std::os::unix::net::{UnixListener, UnixStream};
use std::os::unix::process::CommandExt;
use std::path::{Path, PathBuf};
use std::process::{Command, Stdio};
use std::sync::atomic::{AtomicBool, AtomicUsize, Ordering};
use std::sync::mpsc::{channel, Receiver, RecvTimeoutError, Sender};
use std::sync::{Arc, Mutex};
use std::time::{Duration, Instant};

#[derive(Debug, Clone)]
pub struct Hello {
    pub conn: usize,
    pub actor: String,
    pub pid: i32,
    pub argv0: Vec<u8>,
    pub cwd: Vec<u8>,
    pub args: Vec<Vec<u8>>,
    pub stdin_null: bool,
    /// the child's environment as received (NUL-separated NAME=value), without the simulation's own variables
    pub env: Vec<u8>,
}
#[derive(Debug, Clone)]
pub struct Point {
    pub conn: usize,
    pub actor: String,
    pub pid: i32,
    pub name: String,
    pub detail: String,
}
#[derive(Debug, Clone)]
pub struct ProcExit {
    pub proc_id: usize,
    pub code: Option<i32>,
    pub signal: Option<i32>,
    pub stdout: Vec<u8>,
    pub stderr: Vec<u8>,
}
#[derive(Debug, Clone)]
pub enum Ev {
    Hello(Hello),
    Point(Point),
    Line { conn: usize, line: String },
    Eof { conn: usize },
    Exit(ProcExit),
}

pub struct ProcInfo {
    pub name: String,
    pub pid: i32,
    pub exited: bool,
    pub stdin: Option<std::process::ChildStdin>,
    /// The child is NOT reaped when it exits (its status is read with WNOWAIT): as long as the
    /// zombie exists the kernel cannot hand its pid to an unrelated process, so signalling the
    /// process group `-pid` can never hit a stranger. Reaped in `Ctl::drop`.
    child: Arc<Mutex<Option<std::process::Child>>>,
}

pub struct Ctl {
    pub sock_path: PathBuf,
    rx: Receiver<(u64, Ev)>,
    tx: Sender<(u64, Ev)>,
    buf: VecDeque<(u64, Ev)>,
    /// one counter stamps every arriving event (at arrival, in the reader thread) and every
    /// controller action: happens-before is judged on these stamps, never on consumption order
    clock: Arc<std::sync::atomic::AtomicU64>,
    conns: Arc<Mutex<HashMap<usize, UnixStream>>>,
    pub procs: Vec<ProcInfo>,
    stop: Arc<AtomicBool>,
    pub probes: Arc<Mutex<HashMap<String, u64>>>,
    /// global event sequence number: every consumed event and every controller action gets one
    pub seq: u64,
    /// waits at least this long are hang verdicts (see `wait_for`)
    pub hang_bound: Duration,
    gates: Vec<Arc<AtomicBool>>,
    /// how often a hang verdict was postponed because the processes under test were busy
    pub hang_extensions: u64,
}

const HANG_EXTENSIONS: u32 = 5;
fn ticks_per_sec() -> u64 {
    let t = unsafe { libc::sysconf(libc::_SC_CLK_TCK) };
    if t > 0 { t as u64 } else { 100 }
}

fn reader_thread(
    conn: usize,
    stream: UnixStream,
    tx: Sender<(u64, Ev)>,
    probes: Arc<Mutex<HashMap<String, u64>>>,
    clock: Arc<std::sync::atomic::AtomicU64>,
) {
    let stamp = || clock.fetch_add(1, Ordering::SeqCst) + 1;
    let mut rd = BufReader::new(stream);
    let mut line = String::new();
    loop {
        line.clear();
        match rd.read_line(&mut line) {
            Ok(0) | Err(_) => {
                let _ = tx.send((stamp(), Ev::Eof { conn }));
                return;
            }
            Ok(_) => {}
        }
        let l = line.trim_end();
        let mut it = l.split(' ');
        match it.next() {
            Some("HELLO") => {
                let actor = unhex_str(it.next().unwrap_or("-"));
                let pid = it.next().and_then(|x| x.parse().ok()).unwrap_or(0);
                let argv0 = unhex(it.next().unwrap_or("-"));
                let cwd = unhex(it.next().unwrap_or("-"));
                let n: usize = it.next().and_then(|x| x.parse().ok()).unwrap_or(0);
                let mut args = Vec::new();
                for _ in 0..n {
                    args.push(unhex(it.next().unwrap_or("-")));
                }
                let stdin_null = it.next() == Some("STDIN0");
                let env = if it.next() == Some("ENV") { unhex(it.next().unwrap_or("-")) } else { vec![] };
                let _ = tx.send((
                    stamp(),
                    Ev::Hello(Hello {
                        conn,
                        actor,
                        pid,
                        argv0,
                        cwd,
                        args,
                        stdin_null,
                        env,
                    }),
                ));
            }
            Some("POINT") => {
                let actor = unhex_str(it.next().unwrap_or("-"));
                let pid = it.next().and_then(|x| x.parse().ok()).unwrap_or(0);
                let name = unhex_str(it.next().unwrap_or("-"));
                let detail = unhex_str(it.next().unwrap_or("-"));
                let _ = tx.send((
                    stamp(),
                    Ev::Point(Point {
                        conn,
                        actor,
                        pid,
                        name,
                        detail,
                    }),
                ));
            }
            Some("PROBE") => {
                let name = unhex_str(it.next().unwrap_or("-"));
                *probes.lock().unwrap().entry(name).or_insert(0) += 1;
            }
            _ => {
                let _ = tx.send((
                    stamp(),
                    Ev::Line {
                        conn,
                        line: l.to_string(),
                    },
                ));
            }
        }
    }
}

impl Ctl {
    pub fn new(sock_path: &Path) -> std::io::Result<Ctl> {
        let _ = std::fs::remove_file(sock_path);
        let listener = UnixListener::bind(sock_path)?;
        let (tx, rx) = channel();
        let conns: Arc<Mutex<HashMap<usize, UnixStream>>> = Arc::new(Mutex::new(HashMap::new()));
        let stop = Arc::new(AtomicBool::new(false));
        let probes = Arc::new(Mutex::new(HashMap::new()));
        let clock = Arc::new(std::sync::atomic::AtomicU64::new(0));
        {
            let clock = clock.clone();
            let tx = tx.clone();
            let conns = conns.clone();
            let stop = stop.clone();
            let probes = probes.clone();
            std::thread::spawn(move || {
                let next = AtomicUsize::new(0);
                for s in listener.incoming() {
                    if stop.load(Ordering::SeqCst) {
                        break;
                    }
                    let s = match s {
                        Ok(s) => s,
                        Err(_) => break,
                    };
                    let id = next.fetch_add(1, Ordering::SeqCst);
                    if let Ok(w) = s.try_clone() {
                        conns.lock().unwrap().insert(id, w);
                    }
                    let tx = tx.clone();
                    let probes = probes.clone();
                    let clock = clock.clone();
                    std::thread::spawn(move || reader_thread(id, s, tx, probes, clock));
                }
            });
        }
        Ok(Ctl {
            sock_path: sock_path.to_path_buf(),
            rx,
            tx,
            buf: VecDeque::new(),
            conns,
            procs: vec![],
            stop,
            probes,
            seq: 0,
            clock,
            hang_bound: Duration::from_millis(std::env::var("VERIF_HANG_MS").ok().and_then(|s| s.parse().ok()).unwrap_or(10_000)),
            hang_extensions: 0,
            gates: vec![],
        })
    }

    /// stamp of a controller action
    pub fn tick(&mut self) -> u64 {
        self.seq = self.clock.fetch_add(1, Ordering::SeqCst) + 1;
        self.seq
    }

    /// Start a process in its own process group; its exit (with captured output) arrives as Ev::Exit.
    pub fn spawn(&mut self, name: &str, cmd: Command, want_stdin: bool) -> std::io::Result<usize> {
        self.spawn_gated(name, cmd, want_stdin, None)
    }

    /// As `spawn`; with a gate, the process's stdout is a 4 KiB pipe that nobody reads until the gate is
    /// set (a consumer that is slow or stuck: `monorail run ... | less`).
    pub fn spawn_gated(&mut self, name: &str, mut cmd: Command, want_stdin: bool, gate: Option<Arc<AtomicBool>>) -> std::io::Result<usize> {
        cmd.stdout(Stdio::piped()).stderr(Stdio::piped());
        if want_stdin {
            cmd.stdin(Stdio::piped());
        } else {
            cmd.stdin(Stdio::null());
        }
        cmd.process_group(0);
        let mut child = cmd.spawn()?;
        let id = self.procs.len();
        let pid = child.id() as i32;
        let stdin = child.stdin.take();
        let mut so = child.stdout.take().unwrap();
        let mut se = child.stderr.take().unwrap();
        if let Some(g) = &gate {
            self.gates.push(g.clone());
            use std::os::unix::io::AsRawFd;
            unsafe {
                libc::fcntl(so.as_raw_fd(), libc::F_SETPIPE_SZ, 4096);
            }
        }
        let slot = Arc::new(Mutex::new(Some(child)));
        self.procs.push(ProcInfo {
            name: name.to_string(),
            pid,
            exited: false,
            stdin,
            child: slot,
        });
        let tx = self.tx.clone();
        let clock = self.clock.clone();
        std::thread::spawn(move || {
            let h = std::thread::spawn(move || {
                let mut b = Vec::new();
                let _ = se.read_to_end(&mut b);
                b
            });
            if let Some(g) = &gate {
                while !g.load(Ordering::SeqCst) {
                    std::thread::sleep(Duration::from_millis(2));
                }
            }
            let mut out = Vec::new();
            let _ = so.read_to_end(&mut out);
            let err = h.join().unwrap_or_default();
            // learn the exit status without reaping
            let (code, signal) = unsafe {
                let mut info: libc::siginfo_t = std::mem::zeroed();
                let r = libc::waitid(libc::P_PID, pid as libc::id_t, &mut info, libc::WEXITED | libc::WNOWAIT);
                if r != 0 {
                    (None, None)
                } else if info.si_code == libc::CLD_EXITED {
                    (Some(info.si_status()), None)
                } else {
                    (None, Some(info.si_status()))
                }
            };
            let _ = tx.send((
                clock.fetch_add(1, Ordering::SeqCst) + 1,
                Ev::Exit(ProcExit {
                    proc_id: id,
                    code,
                    signal,
                    stdout: out,
                    stderr: err,
                }),
            ));
        });
        Ok(id)
    }

    /// SIGKILL the whole process group of a process we started.
    pub fn kill(&mut self, proc_id: usize) {
        let pid = self.procs[proc_id].pid;
        unsafe {
            libc::kill(-pid, libc::SIGKILL);
        }
    }
    pub fn signal(&mut self, proc_id: usize, sig: i32) {
        let pid = self.procs[proc_id].pid;
        unsafe {
            libc::kill(pid, sig);
        }
    }

    pub fn send(&mut self, conn: usize, line: &str) -> bool {
        let mut g = self.conns.lock().unwrap();
        match g.get_mut(&conn) {
            Some(s) => s.write_all(line.as_bytes()).is_ok(),
            None => false,
        }
    }

    fn note(&mut self, ev: &Ev) {
        if let Ev::Exit(x) = ev {
            self.procs[x.proc_id].exited = true;
        }
    }

    /// Take the first event (buffered or arriving before the deadline) for which `pred` holds.
    /// Events that do not match stay buffered, in arrival order. `self.seq` becomes the ARRIVAL
    /// stamp of the returned event.
    pub fn wait_for(&mut self, mut pred: impl FnMut(&Ev) -> bool, timeout: Duration) -> Option<Ev> {
        if let Some(i) = self.buf.iter().position(|e| pred(&e.1)) {
            let (st, ev) = self.buf.remove(i).unwrap();
            self.seq = st;
            return Some(ev);
        }
        // A wait as long as the hang bound is a hang verdict when it expires. "Nothing for that long"
        // only means "stuck" if the processes under test were idle meanwhile: one that is still
        // burning CPU (compressing megabytes on a loaded machine) is slow, not stuck, and gets up to
        // HANG_EXTENSIONS further periods. A busy-looping process exhausts them and is reported.
        let extendable = timeout >= self.hang_bound;
        let mut extensions = 0;
        let mut cpu0 = if extendable { self.cpu_ticks() } else { 0 };
        let mut deadline = Instant::now() + timeout;
        loop {
            let now = Instant::now();
            let left = deadline.saturating_duration_since(now);
            match if left.is_zero() { Err(RecvTimeoutError::Timeout) } else { self.rx.recv_timeout(left) } {
                Ok((st, ev)) => {
                    self.note(&ev);
                    if pred(&ev) {
                        self.seq = st;
                        return Some(ev);
                    }
                    self.buf.push_back((st, ev));
                }
                Err(RecvTimeoutError::Timeout) => {
                    if !extendable || extensions >= HANG_EXTENSIONS {
                        return None;
                    }
                    let cpu1 = self.cpu_ticks();
                    // busy = at least 3% of one CPU over the period (an idle, parked process uses none)
                    let need = (timeout.as_millis() as u64 * ticks_per_sec() / 1000) * 3 / 100;
                    if cpu1.saturating_sub(cpu0) < need.max(3) {
                        return None;
                    }
                    extensions += 1;
                    self.hang_extensions += 1;
                    *self.probes.lock().unwrap().entry("harness.hang_verdict_postponed_while_busy".to_string()).or_insert(0) += 1;
                    cpu0 = cpu1;
                    deadline = Instant::now() + timeout;
                }
                Err(RecvTimeoutError::Disconnected) => return None,
            }
        }
    }

    /// CPU time (user+system, own and reaped children, in clock ticks) of the processes we started
    /// that are still alive.
    fn cpu_ticks(&self) -> u64 {
        let mut sum = 0u64;
        for p in &self.procs {
            if p.exited {
                continue;
            }
            if let Ok(s) = std::fs::read_to_string(format!("/proc/{}/stat", p.pid)) {
                // fields after the parenthesised command name: state is field 3
                if let Some(i) = s.rfind(')') {
                    let f: Vec<&str> = s[i + 1..].split_whitespace().collect();
                    // utime stime cutime cstime = fields 14..17 -> indices 11..14 here
                    for k in 11..15 {
                        sum += f.get(k).and_then(|x| x.parse::<u64>().ok()).unwrap_or(0);
                    }
                }
            }
        }
        sum
    }

    /// Non-blocking: is there a buffered/arrived event matching `pred`? (does not consume)
    pub fn peek(&mut self, mut pred: impl FnMut(&Ev) -> bool) -> bool {
        while let Ok((st, ev)) = self.rx.try_recv() {
            self.note(&ev);
            self.buf.push_back((st, ev));
        }
        self.buf.iter().any(|e| pred(&e.1))
    }

    /// put an event back at the front of the buffer with its original arrival stamp
    pub fn unget(&mut self, stamp: u64, ev: Ev) {
        self.buf.push_front((stamp, ev));
    }

    /// forget buffered/arrived events for which `pred` holds; everything else stays in arrival order
    pub fn forget(&mut self, mut pred: impl FnMut(&Ev) -> bool) {
        while let Ok((st, ev)) = self.rx.try_recv() {
            self.note(&ev);
            self.buf.push_back((st, ev));
        }
        self.buf.retain(|e| !pred(&e.1));
    }

    pub fn drain_buffer(&mut self) -> Vec<Ev> {
        while let Ok((st, ev)) = self.rx.try_recv() {
            self.note(&ev);
            self.buf.push_back((st, ev));
        }
        self.buf.drain(..).map(|e| e.1).collect()
    }

    pub fn wait_exit(&mut self, proc_id: usize, timeout: Duration) -> Option<ProcExit> {
        match self.wait_for(
            |e| matches!(e, Ev::Exit(x) if x.proc_id == proc_id),
            timeout,
        ) {
            Some(Ev::Exit(x)) => Some(x),
            _ => None,
        }
    }

    pub fn take_probes(&mut self) -> HashMap<String, u64> {
        std::mem::take(&mut *self.probes.lock().unwrap())
    }
}

impl Drop for Ctl {
    fn drop(&mut self) {
        for g in &self.gates {
            g.store(true, Ordering::SeqCst);
        }
        // no straggler may survive the world; the unreaped leaders keep their pids reserved until here
        for p in &self.procs {
            unsafe {
                libc::kill(-p.pid, libc::SIGKILL);
            }
        }
        for p in &self.procs {
            if let Some(mut c) = p.child.lock().unwrap().take() {
                let _ = c.wait();
            }
        }
        self.stop.store(true, Ordering::SeqCst);
        let _ = UnixStream::connect(&self.sock_path);
        let _ = std::fs::remove_file(&self.sock_path);
        // close our write halves so reader threads of dead peers finish
        self.conns.lock().unwrap().clear();
    }
}
