//! C02, C07, C19: properties over repository / checkpoint-store histories.
use crate::gitmodel::*;
use crate::harness::{scenario_seed, Outcome, Property, Tier};
use crate::prng::Rng;
use crate::rundrv::{drive_run, RunOpts, RunScript};
use crate::runworld::default_hang_ms;
use crate::world::{CmdFile, TargetSpec, World, WorldSpec};
use serde::{Deserialize, Serialize};
use serde_json::{json, Value};
use std::collections::{BTreeMap, BTreeSet};
use std::time::Duration;

fn components() -> Value {
    json!({
        "real": ["monorail binary (analyze, checkpoint, run, out)", "git 2.39 with a pinned environment (dates from a logical clock)", "tmpfs"],
        "stub": ["children (vhelper)"],
        "controlled": ["the operation history (seeded)", "commit identities (function of the history)", "HashSet order via the getrandom seam"]
    })
}

#[derive(Serialize, Deserialize, Clone, Debug)]
pub struct GitScenario {
    pub dirs: Vec<String>,
    /// one target uses this outside directory, if any
    pub shared: Option<String>,
    pub initial: Vec<(String, String)>,
    pub ignore_log: bool,
    pub ignore_build: bool,
    pub ops: Vec<GitOp>,
    pub rand_seed: u64,
    pub with_commands: bool,
    /// RLIMIT_NOFILE of every monorail invocation (None = inherited)
    #[serde(default)]
    pub nofile: Option<u64>,
    /// the repository uses SHA-256 object names
    #[serde(default)]
    pub sha256: bool,
    /// wall-clock faults for the monorail invocations of the history (see WorldSpec::clock_plan)
    #[serde(default)]
    pub clock_plan: Vec<String>,
}

impl GitScenario {
    pub fn spec(&self) -> WorldSpec {
        let mut targets = vec![];
        let mut cmd_files = vec![];
        for (i, d) in self.dirs.iter().enumerate() {
            let mut t = TargetSpec { path: d.clone(), ..Default::default() };
            if i == 0 {
                if let Some(s) = &self.shared {
                    t.uses.push(s.clone());
                }
            }
            if self.with_commands {
                cmd_files.push(CmdFile { target: d.clone(), command: "build".into(), rel: WorldSpec::default_cmd_rel(d, "build"), exec: true, broken: false });
            }
            targets.push(t);
        }
        let mut gitignore = vec![];
        if self.ignore_log {
            gitignore.push("*.log".to_string());
        }
        if self.ignore_build {
            gitignore.push("build/".to_string());
        }
        WorldSpec { targets, cmd_files, files: self.initial.clone(), sequences: vec![], max_retained_runs: 3, gitignore, git: true, lock_host: None, default_ports: 0, omit_max_retained: false, sha256_repo: self.sha256, clock_plan: self.clock_plan.clone(), script_wrappers: 0 }
    }
    pub fn initial_tree(&self) -> Tree {
        let mut t = Tree::new();
        for d in &self.dirs {
            t.insert(format!("{}/file.txt", d), format!("{}\n", d));
        }
        for (p, c) in &self.initial {
            t.insert(p.clone(), c.clone());
        }
        t
    }
    pub fn protected(&self) -> BTreeSet<String> {
        self.dirs.iter().map(|d| format!("{}/file.txt", d)).collect()
    }
    pub fn all_dirs(&self) -> Vec<String> {
        let mut v = self.dirs.clone();
        if let Some(s) = &self.shared {
            v.push(s.clone());
        }
        v
    }
}

fn gen_base(rng: &mut Rng, with_commands: bool, shared: bool) -> GitScenario {
    let nd = rng.range(2, 4);
    let mut dirs: Vec<String> = (0..nd).map(|i| format!("d{}", i)).collect();
    // one world in eight has a target whose name begins with the name of monorail's output directory
    if rng.chance(1, 8) {
        dirs[nd - 1] = "monorail-out-tools".to_string();
    }
    let shared = if shared && rng.chance(1, 2) { Some("shared".to_string()) } else { None };
    let mut initial = vec![];
    let mut alld = dirs.clone();
    if let Some(s) = &shared {
        alld.push(s.clone());
        initial.push((format!("{}/base.txt", s), "shared base\n".to_string()));
    }
    for d in &alld {
        for k in 0..rng.below(3) {
            let n = NAME_POOL[rng.below(12)];
            let (sub, file) = match n.rsplit_once('/') {
                Some((a, b)) => (format!("{}/{}", d, a), b),
                None => (d.clone(), n),
            };
            initial.push((format!("{}/i{}{}", sub, k, file), format!("initial {} {}\n", d, k)));
        }
    }
    let (ignore_log, ignore_build) = (rng.chance(1, 2), rng.chance(1, 2));
    let rand_seed = rng.next_u64() % 1_000_000;
    // one world in four runs monorail under a low descriptor limit (derived from the draw above so that the
    // operation lists of existing seeds stay what they were)
    let nofile = match rand_seed % 8 {
        0 => Some(64),
        1 => Some(128),
        _ => None,
    };
    // one repository in six uses SHA-256 object names (64 hex digits)
    let sha256 = (rand_seed / 8) % 6 == 0;
    // one history in three runs its monorail invocations under wrong and jumping wall clocks (own generator, so that
    // the operation lists of existing seeds stay what they were)
    let clock_plan = if (rand_seed / 48) % 3 == 0 { crate::world::gen_clock_plan(&mut Rng::new(rand_seed ^ 0xC10C)) } else { vec![] };
    GitScenario { dirs, shared, initial, ignore_log, ignore_build, ops: vec![], rand_seed, with_commands, nofile, sha256, clock_plan }
}

struct Exec {
    w: World,
    model: RGit,
    shas: Vec<String>,
    /// (id string, pending map) as recorded by the last successful update; None = no checkpoint
    cp: Option<(String, BTreeMap<String, String>)>,
    cp_doc: Option<Value>,
    moved_from: BTreeSet<String>,
}

fn start(sc: &GitScenario, with_ctl: bool) -> Result<Exec, String> {
    let mut w = World::create(&sc.spec(), with_ctl)?;
    w.set_rand_seed(sc.rand_seed);
    w.nofile = sc.nofile;
    let head = w.git(&["rev-parse", "HEAD"])?.trim().to_string();
    let model = RGit::new(&sc.initial_tree(), sc.ignore_log, sc.ignore_build);
    Ok(Exec { w, model, shas: vec![head], cp: None, cp_doc: None, moved_from: BTreeSet::new() })
}

impl Exec {
    fn repo_op(&mut self, op: &GitOp) -> Result<(), String> {
        self.model.apply(op);
        exec_repo_op(&mut self.w, op, &self.model)?;
        if let GitOp::Move { from, .. } = op {
            self.moved_from.insert(from.clone());
        }
        if matches!(op, GitOp::Commit { .. } | GitOp::Amend { .. }) {
            let h = self.w.git(&["rev-parse", "HEAD"])?.trim().to_string();
            self.shas.push(h);
        }
        Ok(())
    }
    fn cp_update(&mut self, id: Option<&str>, pending: bool) -> crate::world::CliOut {
        let mut a = vec!["checkpoint".to_string(), "update".into()];
        if let Some(i) = id {
            a.push("--id".into());
            a.push(i.to_string());
        }
        if pending {
            a.push("--pending".into());
        }
        let o = self.w.cli_v(&a);
        if o.code == Some(0) {
            if let Some(d) = o.json() {
                let c = &d["checkpoint"];
                let mut pm = BTreeMap::new();
                if let Some(m) = c["pending"].as_object() {
                    for (k, v) in m {
                        pm.insert(k.clone(), v.as_str().unwrap_or("").to_string());
                    }
                }
                self.cp = Some((c["id"].as_str().unwrap_or("").to_string(), pm));
                self.cp_doc = Some(c.clone());
            }
        }
        o
    }
}

/// expected change set for `analyze --changes` under the current checkpoint, before/after the pending filter,
/// cross-checked against raw git. Err = model uncertain (scenario discarded).
fn expected_changes(e: &mut Exec, begin: Option<usize>, end: Option<usize>) -> Result<(BTreeSet<String>, BTreeSet<String>), String> {
    let (cp_id, pending) = e.cp.clone().ok_or("no checkpoint")?;
    let base_sha = match begin {
        Some(b) => e.shas[b].clone(),
        None => cp_id.clone(),
    };
    let base_idx = e.shas.iter().position(|s| *s == base_sha).ok_or("checkpoint id is not a known commit")?;
    let base_tree = e.model.commits[base_idx].clone();
    let model_set: BTreeSet<String> = match end {
        None => e.model.changes_vs_worktree(&base_tree),
        Some(x) => {
            let mut s = e.model.changes_between(&base_tree, &e.model.commits[x]);
            s.extend(e.model.untracked());
            s
        }
    };
    let end_sha = end.map(|x| e.shas[x].clone());
    let (d, o) = raw_git_changes(&mut e.w, &base_sha, end_sha.as_deref())?;
    let raw: BTreeSet<String> = d.union(&o).cloned().collect();
    if raw != model_set {
        return Err(format!("model {:?} vs raw git {:?}", model_set.symmetric_difference(&raw).collect::<Vec<_>>(), ""));
    }
    let filtered: BTreeSet<String> = model_set.iter().filter(|p| pending.get(*p).map(|s| *s != current_sha(&e.w, p)).unwrap_or(true)).cloned().collect();
    Ok((model_set, filtered))
}

fn sut_changes(o: &crate::world::CliOut) -> Result<Option<Vec<String>>, String> {
    if o.code != Some(0) {
        return Err(format!("analyze failed: exit {:?} {}", o.code, o.err_str().trim()));
    }
    let d = o.json().ok_or("analyze printed no JSON")?;
    match d["changes"].as_array() {
        Some(a) => Ok(Some(a.iter().map(|x| x["path"].as_str().unwrap_or("").to_string()).collect())),
        None => Ok(None),
    }
}

/// judge one `analyze --changes` against the expected set
fn judge_changes(got: &[String], want: &BTreeSet<String>, e: &Exec, ctx: &str, out: &mut Outcome) {
    let gset: BTreeSet<String> = got.iter().cloned().collect();
    if gset.len() != got.len() {
        out.advisories.push("a path is listed twice".into());
    }
    if gset != *want {
        let missing: Vec<&String> = want.difference(&gset).collect();
        let extra: Vec<&String> = gset.difference(want).collect();
        let quoted = extra.iter().any(|x| x.starts_with('"'));
        let (check, class) = if quoted {
            // verbatim: the path on disk is among the missing ones, its quoted rendering among the extra ones
            let kinds: BTreeSet<&str> = missing.iter().map(|m| name_class(m)).filter(|k| *k == "non_ascii" || *k == "ascii_special").collect();
            ("changes_verbatim", if kinds.contains("non_ascii") { "quoted_non_ascii" } else { "quoted_ascii_special" })
        } else if !missing.is_empty() && extra.is_empty() && missing.iter().all(|m| e.moved_from.contains(*m)) {
            ("changes_set", "rename_old_path_missing")
        } else if missing.is_empty() {
            ("changes_set", "extra_paths")
        } else if extra.is_empty() {
            ("changes_set", "missing_paths")
        } else {
            ("changes_set", "different_paths")
        };
        out.violate(check, class, format!("{}: analyze --changes lists {:?}; expected {:?} (missing {:?}, extra {:?})", ctx, got, want, missing, extra));
        return;
    }
    let mut sorted = got.to_vec();
    sorted.sort();
    if sorted != got {
        out.violate("changes_sorted", "unsorted", format!("{}: changes are not sorted: {:?}", ctx, got));
    }
}

// ---------------------------------------------------------------------------------------------
// C02

pub struct C02;

fn gen_c02(seed: u64, idx: usize, tier: Tier) -> GitScenario {
    let mut rng = Rng::new(scenario_seed(seed, "C02", idx));
    let mut sc = gen_base(&mut rng, false, false);
    let model = RGit::new(&sc.initial_tree(), sc.ignore_log, sc.ignore_build);
    let n = if tier == Tier::Thorough { rng.range(8, 25) } else { rng.range(5, 16) };
    let dirs = sc.dirs.clone();
    let prot = sc.protected();
    let mut ops = vec![];
    let mut have_cp = false;
    {
        let mut g = HistGen::new(&mut rng, model, dirs, prot);
        g.long_names = true;
        g.bulk_left = if g.rng.chance(1, 12) { 1 } else { 0 };
        if g.bulk_left > 0 && g.rng.chance(1, 4) {
            // 2000-2750 names: a listing of well over 64 KiB (nobody may wait for git to exit before reading it)
            g.bulk_base = 2000;
        }
        g.big_left = if g.rng.chance(1, 8) { 1 } else { 0 };
        g.allow_empty = true;
        for _ in 0..n {
            let r = g.rng.below(10);
            if r < 6 || (!have_cp && r < 7) {
                ops.push(g.repo_op());
            } else if r < 8 || !have_cp {
                let nc = g.model.commits.len();
                let id = if g.rng.chance(1, 2) { None } else { Some(g.rng.below(nc)) };
                ops.push(GitOp::CpUpdate { id, raw_id: None, pending: g.rng.chance(1, 2) });
                have_cp = true;
            } else {
                let nc = g.model.commits.len();
                let (b, e) = match g.rng.below(6) {
                    0 | 1 | 2 => (None, None),
                    3 => (Some(g.rng.below(nc)), None),
                    // --end alone: the interval starts at the checkpoint
                    4 => (None, Some(g.rng.below(nc))),
                    _ => {
                        let b = g.rng.below(nc);
                        (Some(b), Some(g.rng.range(b, nc - 1)))
                    }
                };
                ops.push(GitOp::Analyze { begin: b, end: e });
            }
        }
        if have_cp {
            ops.push(GitOp::Analyze { begin: None, end: None });
        }
    }
    sc.ops = ops;
    sc
}

fn exec_c02(sc: &GitScenario) -> Outcome {
    let mut out = exec_c02_inner(sc);
    out.tolerate_loud_descriptor_exhaustion(sc.nofile.is_some());
    out
}

fn exec_c02_inner(sc: &GitScenario) -> Outcome {
    let mut e = match start(sc, false) {
        Ok(e) => e,
        Err(x) => return Outcome::skip(&format!("world: {}", x)),
    };
    let mut out = Outcome::default();
    if sc.nofile.is_some() {
        out.fault("descriptor_limit_lowered_to_64_or_128", 1);
    }
    let mut expected_sets: BTreeSet<Vec<String>> = BTreeSet::new();
    let mut interesting = false;
    for (i, op) in sc.ops.iter().enumerate() {
        match op {
            GitOp::CpUpdate { id, pending, .. } => {
                let sha = id.map(|n| e.shas[n.min(e.shas.len() - 1)].clone());
                if id.map(|n| n + 1 < e.shas.len()).unwrap_or(false) {
                    interesting = true;
                }
                let o = e.cp_update(sha.as_deref(), *pending);
                out.trace.push(format!("{} checkpoint update id={:?} pending={} -> exit {:?} pending_entries={}", i, id, pending, o.code, e.cp.as_ref().map(|c| c.1.len()).unwrap_or(0)));
                if o.code != Some(0) {
                    out.advisories.push(format!("checkpoint update failed: {}", o.err_str().trim()));
                }
                if e.cp.as_ref().map(|c| !c.1.is_empty()).unwrap_or(false) {
                    interesting = true;
                }
            }
            GitOp::Analyze { begin, end } => {
                if e.cp.is_none() {
                    continue;
                }
                let begin = begin.map(|b| b.min(e.shas.len() - 1));
                let end = end.map(|x| x.min(e.shas.len() - 1));
                let mut a = vec!["analyze".to_string(), "--changes".into()];
                if let Some(b) = begin {
                    a.push("--begin".into());
                    a.push(e.shas[b].clone());
                }
                if let Some(x) = end {
                    a.push("--end".into());
                    a.push(e.shas[x].clone());
                }
                // monorail is asked first; only then is raw git consulted for the double oracle (a plain
                // `git diff` refreshes the index's stat cache, which would cure a stale entry before the SUT sees it)
                let o = e.w.cli_v(&a);
                out.sub_evals += 1;
                let (_, want) = match expected_changes(&mut e, begin, end) {
                    Ok(x) => x,
                    Err(m) => {
                        out.advisories.push(format!("model_uncertain: {}", m));
                        out.skipped = Some("model_uncertain(R-git disagrees with raw git)".into());
                        return out;
                    }
                };
                let ctx = format!("op {} analyze begin={:?} end={:?}", i, begin, end);
                match sut_changes(&o) {
                    Ok(Some(got)) => {
                        out.trace.push(format!("{} analyze b={:?} e={:?} -> {} changes (expected {})", i, begin, end, got.len(), want.len()));
                        judge_changes(&got, &want, &e, &ctx, &mut out);
                    }
                    Ok(None) => out.violate("changes_set", "no_changes_field", format!("{}: no changes field although a checkpoint exists", ctx)),
                    Err(m) => out.violate("changes_set", "analyze_failed", format!("{}: {}", ctx, m)),
                }
                expected_sets.insert(want.iter().cloned().collect());
                if !out.violations.is_empty() {
                    break;
                }
            }
            other => {
                if let Err(m) = e.repo_op(other) {
                    out.advisories.push(format!("op failed: {}", m));
                    out.skipped = Some("history_op_failed(harness)".into());
                    return out;
                }
                match other {
                    GitOp::Move { .. } => {
                        interesting = true;
                        out.fault("file_moved", 1);
                    }
                    GitOp::Delete { .. } => {
                        interesting = true;
                        out.fault("file_deleted", 1);
                    }
                    GitOp::Bulk { .. } => {
                        interesting = true;
                        out.fault("listing_longer_than_one_pipe_buffer", 1);
                    }
                    GitOp::Create { path } if name_class(path) == "non_ascii" || name_class(path) == "ascii_special" => {
                        interesting = true;
                        out.fault("name_git_would_quote", 1);
                    }
                    _ => {}
                }
                out.trace.push(format!("{} {:?}", i, other));
            }
        }
    }
    out.nontrivial = interesting && expected_sets.len() >= 2;
    out.signature = format!("{:?}", sc.ops);
    out.steps = sc.ops.len() as u64;
    out
}

fn shrink_ops(sc: &GitScenario) -> Vec<Value> {
    let mut v = vec![];
    // drop trailing ops, then single ops (the executor clamps commit references)
    for i in (0..sc.ops.len()).rev() {
        let mut s = sc.clone();
        s.ops.remove(i);
        v.push(serde_json::to_value(s).unwrap());
    }
    if !sc.initial.is_empty() {
        let mut s = sc.clone();
        s.initial.clear();
        v.push(serde_json::to_value(s).unwrap());
    }
    v
}

impl Property for C02 {
    fn id(&self) -> &'static str {
        "C02"
    }
    fn count(&self, tier: Tier) -> usize {
        match tier {
            Tier::Quick => 400,
            Tier::Thorough => 8000,
        }
    }
    fn generate(&self, seed: u64, idx: usize, tier: Tier) -> Value {
        let mut sc = gen_c02(seed, idx, tier);
        amend_some(&mut sc.ops, seed, "C02-amend", idx);
        same_stat_some(&mut sc.ops, seed, "C02-samestat", idx);
        serde_json::to_value(sc).unwrap()
    }
    fn execute(&self, v: &Value) -> Outcome {
        match serde_json::from_value::<GitScenario>(v.clone()) {
            Ok(sc) => exec_c02(&sc),
            Err(e) => Outcome::skip(&format!("bad scenario {}", e)),
        }
    }
    fn shrink(&self, v: &Value) -> Vec<Value> {
        serde_json::from_value::<GitScenario>(v.clone()).map(|s| shrink_ops(&s)).unwrap_or_default()
    }
    fn rule(&self) -> String {
        "seeded histories of 5-16 (thorough 8-25) operations on a real git repository: create / edit to fresh content / delete / move (git mv or mv, with or without an edit) / stage / stage all / unstage / commit (staged or -a) / write an ignored file / checkpoint update (HEAD or --id of any earlier commit, with or without --pending) / analyze --changes with no range, --begin, or --begin and --end; names with spaces, non-ASCII, double quote, backslash, tab, 200-byte names. Oracle: in-memory repository model, cross-checked against raw git (disagreement discards the scenario), minus the pending entries whose recorded checksum equals the current SHA-256; set equality, verbatim paths, sorted. Rounds 11-12: one commit in five is `git commit --amend` (the checkpoint's commit may stop being an ancestor of HEAD); one plain edit in twelve keeps the file's size and modification time while git's stat cache knows the old timestamp; one history in three runs monorail under wrong and jumping wall clocks. Non-trivial = history has a move, a delete, a name git would quote, an --id older than HEAD or a non-empty pending map, and two analyses with different expected sets; distinct = the operation list".into()
    }
    fn components(&self) -> Value {
        components()
    }
    fn assumptions(&self) -> Vec<String> {
        vec![
            "linear histories; no submodules, symlinks, mode-only changes or merges (the property names create/edit/delete/move/stage/commit)".into(),
            "file names are valid UTF-8 without newlines".into(),
            "a path listed twice is recorded as an advisory only (the property does not speak of multiplicity)".into(),
        ]
    }
}

// ---------------------------------------------------------------------------------------------
// C07

#[derive(Serialize, Deserialize, Clone, Debug)]
pub struct C07Scenario {
    pub base: GitScenario,
    pub phases: Vec<C07Phase>,
}
#[derive(Serialize, Deserialize, Clone, Debug)]
pub struct C07Phase {
    pub dirty: Vec<GitOp>,
    pub edits: Vec<GitOp>,
}

pub struct C07;

/// One commit in five of a generated history becomes `git commit --amend`: HEAD's previous commit - which may be the
/// checkpoint's - stops being an ancestor of HEAD (rewritten history: amend, rebase, squash). Trees, and with them
/// every expected change set, are what they would be after a plain commit. Own generator over the finished list.
/// One plain edit in twelve keeps the file's size and modification time (own generator over the finished list).
pub fn same_stat_some(ops: &mut [GitOp], seed: u64, tag: &str, idx: usize) {
    let mut rng = Rng::new(scenario_seed(seed, tag, idx));
    for op in ops.iter_mut() {
        if let GitOp::Edit { path } = op {
            if rng.chance(1, 12) && !path.ends_with("dirlink") {
                *op = GitOp::EditSameStat { path: path.clone() };
            }
        }
    }
}

pub fn amend_some(ops: &mut [GitOp], seed: u64, tag: &str, idx: usize) {
    let mut rng = Rng::new(scenario_seed(seed, tag, idx));
    for op in ops.iter_mut() {
        if let GitOp::Commit { all } = op {
            if rng.chance(1, 5) {
                *op = GitOp::Amend { all: *all };
            }
        }
    }
}

fn gen_c07(seed: u64, idx: usize, _tier: Tier) -> C07Scenario {
    let mut rng = Rng::new(scenario_seed(seed, "C07", idx));
    let mut base = gen_base(&mut rng, true, true);
    base.ignore_build = false; // plain configurations; build/ would shadow command directories of no one, keep it simple
    let model = RGit::new(&base.initial_tree(), base.ignore_log, base.ignore_build);
    let dirs = base.all_dirs();
    let prot = base.protected();
    let np = rng.range(1, 4);
    let mut phases = vec![];
    let mut g = HistGen::new(&mut rng, model, dirs, prot);
    g.big_left = match g.rng.below(12) {
        0 => 1,
        1 | 2 => 3,
        _ => 0,
    };
    g.links_left = if g.rng.chance(1, 8) { 1 } else { 0 };
    g.bulk_left = if g.rng.chance(1, 8) { 1 } else { 0 };
    for _ in 0..np {
        let nd = g.rng.range(1, 8);
        let dirty: Vec<GitOp> = (0..nd).map(|_| g.repo_op()).collect();
        let ne = g.rng.range(1, 4);
        let mut edits = vec![];
        for _ in 0..ne {
            // creation, change to never-seen content, or deletion of a committed file
            let head: BTreeSet<String> = g.model.head().keys().filter(|p| g.model.wt.contains_key(*p) && !g.protected.contains(*p)).cloned().collect();
            let wt: Vec<String> = g.model.wt.keys().filter(|p| !g.model.is_ignored(p) && !g.protected.contains(*p)).cloned().collect();
            let op = match g.rng.below(3) {
                0 if !head.is_empty() => {
                    let v: Vec<&String> = head.iter().collect();
                    GitOp::Delete { path: v[g.rng.below(v.len())].clone() }
                }
                1 if !wt.is_empty() => {
                    // prefer the big file when there is one; one edit in four keeps an old mtime
                    let big: Vec<&String> = wt.iter().filter(|p| p.ends_with(".big")).collect();
                    let path = if !big.is_empty() && g.rng.chance(1, 2) { big[0].clone() } else { wt[g.rng.below(wt.len())].clone() };
                    let has_lines = g.model.wt.get(&path).map(|c| c.contains('\n')).unwrap_or(false) && !path.ends_with("dirlink");
                    match g.rng.below(9) {
                        0 | 1 => GitOp::EditOld { path },
                        // only the line terminators change: content the file never had
                        2 if has_lines => GitOp::Crlf { path },
                        // re-saved with the bytes it already has (new inode, new timestamps): not a change
                        3 if !path.ends_with("dirlink") && g.model.index.contains_key(&path) => GitOp::RewriteSame { path },
                        _ => GitOp::Edit { path },
                    }
                }
                _ => {
                    let n = g.model.wt.len() + g.model.commits.len() * 100 + edits.len();
                    // directories that hold untracked files only (git may summarise such a directory as one entry)
                    let untracked_dirs: BTreeSet<String> = g.model.untracked().iter().filter_map(|p| p.rsplit_once('/').map(|x| x.0.to_string())).filter(|d| !g.model.index.keys().any(|k| k.starts_with(&format!("{}/", d)))).collect();
                    let d = if !untracked_dirs.is_empty() && g.rng.chance(1, 2) {
                        let v: Vec<&String> = untracked_dirs.iter().collect();
                        v[g.rng.below(v.len())].clone()
                    } else {
                        g.dirs[g.rng.below(g.dirs.len())].clone()
                    };
                    GitOp::Create { path: format!("{}/new{}{}", d, n, NAME_POOL[g.rng.below(8)].replace('/', "_")) }
                }
            };
            g.model.apply(&op);
            edits.push(op);
        }
        phases.push(C07Phase { dirty, edits });
    }
    drop(g);
    C07Scenario { base, phases }
}

fn targets_of(base: &GitScenario, path: &str) -> BTreeSet<String> {
    let mut s = BTreeSet::new();
    for (i, d) in base.dirs.iter().enumerate() {
        if crate::models::inside_or_eq(path, d) {
            s.insert(d.clone());
        }
        if i == 0 {
            if let Some(sh) = &base.shared {
                if crate::models::inside_or_eq(path, sh) {
                    s.insert(d.clone());
                }
            }
        }
    }
    s
}

fn exec_c07(sc: &C07Scenario) -> Outcome {
    let mut out = exec_c07_inner(sc);
    out.tolerate_loud_descriptor_exhaustion(sc.base.nofile.is_some());
    out
}

fn exec_c07_inner(sc: &C07Scenario) -> Outcome {
    let mut e = match start(&sc.base, true) {
        Ok(e) => e,
        Err(x) => return Outcome::skip(&format!("world: {}", x)),
    };
    let mut out = Outcome::default();
    if sc.base.nofile.is_some() {
        out.fault("descriptor_limit_lowered_to_64_or_128", 1);
    }
    let hang = Duration::from_millis(default_hang_ms());
    let mut kinds_max = 0;
    let mut reflagged = false;
    for (pi, ph) in sc.phases.iter().enumerate() {
        for op in &ph.dirty {
            if let Err(m) = e.repo_op(op) {
                out.advisories.push(format!("op failed: {}", m));
                out.skipped = Some("history_op_failed(harness)".into());
                return out;
            }
            out.trace.push(format!("p{} dirty {:?}", pi, op));
        }
        let kinds = e.model.dirt_kinds();
        kinds_max = kinds_max.max(kinds.len());
        for k in &kinds {
            out.fault(&format!("dirty_state_{}", k), 1);
        }
        if ph.dirty.iter().any(|o| matches!(o, GitOp::Move { .. })) {
            out.fault("dirty_state_moved", 1);
        }
        let o = e.cp_update(None, true);
        out.trace.push(format!("p{} checkpoint update -p -> exit {:?} pending={}", pi, o.code, e.cp.as_ref().map(|c| c.1.len()).unwrap_or(0)));
        if o.code != Some(0) {
            out.violate("clean_after_update", "update_failed", format!("phase {}: checkpoint update -p failed: {}", pi, o.err_str().trim()));
            return out;
        }
        // (1) nothing is changed
        let a = e.w.cli(&["analyze", "--changes"]);
        out.sub_evals += 1;
        match a.json() {
            Some(d) if a.code == Some(0) => {
                let ts: Vec<String> = d["targets"].as_array().map(|x| x.iter().filter_map(|s| s.as_str().map(String::from)).collect()).unwrap_or_default();
                let chs: Vec<String> = d["changes"].as_array().map(|x| x.iter().map(|c| c["path"].as_str().unwrap_or("").to_string()).collect()).unwrap_or_default();
                if !ts.is_empty() || !chs.is_empty() {
                    let quoted = chs.iter().any(|c| c.starts_with('"'));
                    let moved = chs.iter().all(|c| e.moved_from.contains(c)) && !chs.is_empty();
                    let class = if quoted { "quoted_name_not_matched" } else if moved { "renamed_old_path" } else { "still_changed" };
                    out.violate("clean_after_update", class, format!("phase {}: immediately after checkpoint update -p (dirty kinds {:?}) analyze still reports targets {:?} changes {:?}", pi, kinds, ts, chs));
                    return out;
                }
            }
            _ => {
                out.violate("clean_after_update", "analyze_failed", format!("phase {}: analyze failed after update: {}", pi, a.err_str().trim()));
                return out;
            }
        }
        // (2) run executes nothing
        let tr = drive_run(&mut e.w, "M1", &RunScript { rand_seed: Some(sc.base.rand_seed), ..RunScript::simple(RunOpts { commands: vec!["build".into()], ..Default::default() }) }, hang);
        out.sub_evals += 1;
        if !tr.helpers.is_empty() || tr.code() != Some(0) {
            out.violate("run_noop_after_update", "ran", format!("phase {}: run after checkpoint update -p started {:?} (exit {:?} {})", pi, tr.helpers.iter().map(|h| h.target.clone()).collect::<Vec<_>>(), tr.code(), tr.stderr_str().trim()));
            return out;
        }
        // (3) later edits re-flag exactly
        let mut edited: BTreeSet<String> = BTreeSet::new();
        let at_update = e.model.wt.clone();
        for op in &ph.edits {
            if let Err(m) = e.repo_op(op) {
                out.advisories.push(format!("edit failed: {}", m));
                out.skipped = Some("history_op_failed(harness)".into());
                return out;
            }
            match op {
                GitOp::Create { path } | GitOp::Edit { path } | GitOp::EditOld { path } | GitOp::EditSameStat { path } | GitOp::Delete { path } | GitOp::Crlf { path } => {
                    edited.insert(path.clone());
                    if matches!(op, GitOp::EditSameStat { .. }) {
                        out.fault("edit_keeping_size_and_modification_time", 1);
                    }
                    if path.ends_with(".big") {
                        out.fault("edit_beyond_the_first_mib_of_a_large_file", 1);
                    }
                    if matches!(op, GitOp::EditOld { .. }) {
                        out.fault("edit_keeping_an_old_mtime", 1);
                    }
                    if matches!(op, GitOp::Crlf { .. }) {
                        out.fault("edit_of_line_terminators_only", 1);
                    }
                }
                GitOp::RewriteSame { .. } => {
                    out.fault("file_re_saved_with_identical_content_after_the_update", 1);
                }
                _ => {}
            }
            out.trace.push(format!("p{} edit {:?}", pi, op));
        }
        // an untracked file that was created and then deleted again is simply gone: not a change
        // ... and so is a path whose content is again what it was at the update (line terminators flipped twice)
        // ... and so is a path that differs from the checkpoint commit no longer (a dirty file flipped back to its
        // committed content: content it had)
        let differs_from_commit = {
            let head_tree = e.model.head().clone();
            e.model.changes_vs_worktree(&head_tree)
        };
        let want: BTreeSet<String> = edited.iter().filter(|p| differs_from_commit.contains(*p)).filter(|p| e.model.wt.get(*p) != at_update.get(*p)).cloned().collect();
        // monorail is asked first; raw git (whose `diff` refreshes the index's stat cache) only afterwards
        let a = e.w.cli(&["analyze", "--changes"]);
        out.sub_evals += 1;
        // exclude the exotic: model must agree with raw git about what differs from HEAD
        let head_sha = e.shas.last().unwrap().clone();
        match raw_git_changes(&mut e.w, &head_sha, None) {
            Ok((d, o)) => {
                let raw: BTreeSet<String> = d.union(&o).cloned().collect();
                let head_tree = e.model.head().clone();
                let modelled = e.model.changes_vs_worktree(&head_tree);
                if raw != modelled {
                    out.advisories.push(format!("model_uncertain: only raw git {:?}, only model {:?}", raw.difference(&modelled).collect::<Vec<_>>(), modelled.difference(&raw).collect::<Vec<_>>()));
                    out.skipped = Some("model_uncertain(R-git disagrees with raw git)".into());
                    return out;
                }
            }
            Err(m) => {
                out.advisories.push(m);
                out.skipped = Some("model_uncertain(raw git failed)".into());
                return out;
            }
        }
        match a.json() {
            Some(d) if a.code == Some(0) => {
                let chs: Vec<String> = d["changes"].as_array().map(|x| x.iter().map(|c| c["path"].as_str().unwrap_or("").to_string()).collect()).unwrap_or_default();
                judge_changes_c07(&chs, &want, &e, pi, &mut out);
                let ts: BTreeSet<String> = d["targets"].as_array().map(|x| x.iter().filter_map(|s| s.as_str().map(String::from)).collect()).unwrap_or_default();
                let want_t: BTreeSet<String> = want.iter().flat_map(|p| targets_of(&sc.base, p)).collect();
                if out.violations.is_empty() && ts != want_t {
                    out.violate("reflag_targets", "targets_differ", format!("phase {}: edits {:?} must re-flag targets {:?}, analyze reports {:?}", pi, want, want_t, ts));
                }
                if !want.is_empty() {
                    reflagged = true;
                }
            }
            _ => out.violate("reflag_changes", "analyze_failed", format!("phase {}: analyze failed: {}", pi, a.err_str().trim())),
        }
        if !out.violations.is_empty() {
            return out;
        }
    }
    out.nontrivial = kinds_max >= 2 && reflagged;
    out.signature = format!("{:?}", sc.phases.iter().map(|p| (&p.dirty, &p.edits)).collect::<Vec<_>>());
    out.steps = sc.phases.iter().map(|p| p.dirty.len() + p.edits.len()).sum::<usize>() as u64;
    out
}

fn judge_changes_c07(got: &[String], want: &BTreeSet<String>, e: &Exec, pi: usize, out: &mut Outcome) {
    let gset: BTreeSet<String> = got.iter().cloned().collect();
    if gset != *want {
        let missing: Vec<&String> = want.difference(&gset).collect();
        let extra: Vec<&String> = gset.difference(want).collect();
        let class = if extra.iter().any(|x| x.starts_with('"')) {
            "quoted_name"
        } else if !extra.is_empty() && extra.iter().all(|x| e.moved_from.contains(*x)) && missing.is_empty() {
            "renamed_old_path"
        } else if missing.is_empty() {
            "extra_paths"
        } else {
            "missing_paths"
        };
        out.violate("reflag_changes", class, format!("phase {}: after the update, edits touched exactly {:?} but analyze --changes lists {:?} (missing {:?}, extra {:?})", pi, want, got, missing, extra));
    }
}

impl Property for C07 {
    fn id(&self) -> &'static str {
        "C07"
    }
    fn count(&self, tier: Tier) -> usize {
        match tier {
            Tier::Quick => 250,
            Tier::Thorough => 5000,
        }
    }
    fn generate(&self, seed: u64, idx: usize, tier: Tier) -> Value {
        let mut sc = gen_c07(seed, idx, tier);
        for (k, ph) in sc.phases.iter_mut().enumerate() {
            amend_some(&mut ph.dirty, seed, "C07-amend-d", idx * 16 + k);
            amend_some(&mut ph.edits, seed, "C07-amend-e", idx * 16 + k);
            same_stat_some(&mut ph.dirty, seed, "C07-samestat-d", idx * 16 + k);
            same_stat_some(&mut ph.edits, seed, "C07-samestat-e", idx * 16 + k);
            // a file that is deleted after the update was, one time in three, emptied just before it: an empty file
            // and a missing file are different states (own generator)
            let mut erng = Rng::new(scenario_seed(seed, "C07-empty-then-delete", idx * 16 + k));
            let emptied: Vec<GitOp> = ph.edits.iter().filter_map(|o| match o {
                GitOp::Delete { path } if !path.ends_with("dirlink") && erng.chance(1, 3) => Some(GitOp::Empty { path: path.clone() }),
                _ => None,
            }).collect();
            ph.dirty.extend(emptied);
        }
        serde_json::to_value(sc).unwrap()
    }
    fn execute(&self, v: &Value) -> Outcome {
        match serde_json::from_value::<C07Scenario>(v.clone()) {
            Ok(sc) => exec_c07(&sc),
            Err(e) => Outcome::skip(&format!("bad scenario {}", e)),
        }
    }
    fn shrink(&self, v: &Value) -> Vec<Value> {
        let mut outv = vec![];
        if let Ok(sc) = serde_json::from_value::<C07Scenario>(v.clone()) {
            for i in (0..sc.phases.len()).rev() {
                if sc.phases.len() > 1 {
                    let mut s = sc.clone();
                    s.phases.truncate(i + 1);
                    if s.phases.len() < sc.phases.len() {
                        outv.push(serde_json::to_value(&s).unwrap());
                    }
                }
            }
            for (pi, ph) in sc.phases.iter().enumerate() {
                for i in (0..ph.dirty.len()).rev() {
                    let mut s = sc.clone();
                    s.phases[pi].dirty.remove(i);
                    outv.push(serde_json::to_value(&s).unwrap());
                }
                for i in (0..ph.edits.len()).rev() {
                    let mut s = sc.clone();
                    s.phases[pi].edits.remove(i);
                    outv.push(serde_json::to_value(&s).unwrap());
                }
            }
        }
        outv
    }
    fn rule(&self) -> String {
        "plain configurations (2-4 disjoint targets, optionally one outside directory used by a target) x 1-4 phases, each: 1-8 dirtying operations (create, edit, delete, git mv / mv, stage, stage all, unstage, commit, ignored files; names with spaces, non-ASCII, quote, backslash, tab) -> checkpoint update -p -> assert analyze reports nothing and a run starts no process -> 1-4 edits (creation, change to never-seen content, deletion of a committed file) -> assert analyze --changes lists exactly the edited paths and exactly their targets; the next phase's update must clear them again. Rounds 11-12: amended commits, same-size/same-mtime edits, wrong and jumping wall clocks as in C02; a file deleted after the update was, one time in three, emptied just before it (empty and missing are different states). Non-trivial = the state at an update had >= 2 kinds of dirt and a later edit re-flagged; distinct = the operation lists".into()
    }
    fn components(&self) -> Value {
        components()
    }
    fn assumptions(&self) -> Vec<String> {
        vec!["configurations are plain (disjoint targets) so that 'targets affected by a path' does not import C01".into(), "scenarios where the repository model disagrees with raw git are discarded and counted".into()]
    }
}

// ---------------------------------------------------------------------------------------------
// C19

pub struct C19;

fn gen_c19(seed: u64, idx: usize, _tier: Tier) -> GitScenario {
    let mut rng = Rng::new(scenario_seed(seed, "C19", idx));
    let mut sc = gen_base(&mut rng, true, false);
    let model = RGit::new(&sc.initial_tree(), sc.ignore_log, sc.ignore_build);
    let n = rng.range(8, 30);
    let dirs = sc.dirs.clone();
    let prot = sc.protected();
    let mut ops = vec![];
    {
        let mut g = HistGen::new(&mut rng, model, dirs, prot);
        for _ in 0..n {
            let op = match g.rng.below(16) {
                0 | 1 => {
                    let o = GitOp::Commit { all: true };
                    g.model.apply(&o);
                    o
                }
                2 => {
                    let p = format!("{}/e{}.txt", g.dirs[g.rng.below(g.dirs.len())], ops.len());
                    let o = GitOp::Create { path: p };
                    g.model.apply(&o);
                    o
                }
                // any repository operation of the shared generator: edits, deletions of tracked files (a pending
                // entry with an empty checksum), moves, staging, packed refs ...
                3 => g.repo_op(),
                4..=7 => {
                    let nc = g.model.commits.len();
                    match g.rng.below(4) {
                        0 => GitOp::CpUpdate { id: None, raw_id: Some(format!("arbitrary-{}", ops.len())), pending: g.rng.chance(1, 3) },
                        1 => GitOp::CpUpdate { id: Some(g.rng.below(nc)), raw_id: None, pending: g.rng.chance(1, 2) },
                        _ => GitOp::CpUpdate { id: None, raw_id: None, pending: g.rng.chance(1, 2) },
                    }
                }
                8 | 9 => GitOp::CpShow,
                10 => {
                    if g.rng.chance(1, 3) {
                        GitOp::CpUpdateUnborn { pending: g.rng.chance(1, 3) }
                    } else if g.rng.chance(1, 2) {
                        let nc = g.model.commits.len();
                        GitOp::CpUpdateUnreadable { id: if g.rng.chance(1, 2) { Some(g.rng.below(nc)) } else { None } }
                    } else {
                        GitOp::CpUpdate { id: None, raw_id: Some("\u{0}fail".into()), pending: g.rng.chance(1, 2) }
                    }
                }
                11 => GitOp::CpDelete,
                12 => GitOp::OutDelete,
                13 | 14 => {
                    // with an interval now and then: without a checkpoint it changes nothing
                    let nc = g.model.commits.len();
                    match g.rng.below(4) {
                        0 => GitOp::Analyze { begin: Some(g.rng.below(nc)), end: None },
                        1 => {
                            let b = g.rng.below(nc);
                            GitOp::Analyze { begin: Some(b), end: Some(g.rng.range(b, nc - 1)) }
                        }
                        _ => GitOp::Analyze { begin: None, end: None },
                    }
                }
                _ => {
                    if g.rng.chance(1, 3) {
                        GitOp::RunFrom { begin: g.rng.below(g.model.commits.len()) }
                    } else {
                        GitOp::Run
                    }
                }
            };
            ops.push(op);
        }
        ops.push(GitOp::CpShow);
        if g.rng.chance(1, 25) {
            // a pending set whose stored document is well beyond 128 KiB (one zstd input block)
            let at = g.rng.below(ops.len());
            let bulk = GitOp::Bulk { dir: g.dirs[g.rng.below(g.dirs.len())].clone(), n: 1600 + g.rng.below(900), tag: 9000 };
            g.model.apply(&bulk);
            ops.insert(at, GitOp::CpShow);
            ops.insert(at, GitOp::CpUpdate { id: None, raw_id: None, pending: true });
            ops.insert(at, bulk);
        }
    }
    sc.ops = ops;
    sc
}

fn exec_c19(sc: &GitScenario) -> Outcome {
    let mut out = exec_c19_inner(sc);
    out.tolerate_loud_descriptor_exhaustion(sc.nofile.is_some());
    out
}

fn exec_c19_inner(sc: &GitScenario) -> Outcome {
    let mut e = match start(sc, true) {
        Ok(e) => e,
        Err(x) => return Outcome::skip(&format!("world: {}", x)),
    };
    let mut out = Outcome::default();
    if sc.nofile.is_some() {
        out.fault("descriptor_limit_lowered_to_64_or_128", 1);
    }
    let hang = Duration::from_millis(default_hang_ms());
    let all: BTreeSet<String> = sc.dirs.iter().cloned().collect();
    let mut ids: BTreeSet<String> = BTreeSet::new();
    let mut delete_then_update = false;
    let mut deleted_once = false;
    for (i, op) in sc.ops.iter().enumerate() {
        match op {
            GitOp::CpUpdate { raw_id: Some(r), pending, .. } if r == "\u{0}fail" => {
                // an update that cannot succeed (its git binary does not exist): the store must not change
                let mut a = vec!["checkpoint".to_string(), "update".into(), "--git-path".into(), "/nonexistent/git".into()];
                if *pending {
                    a.push("--pending".into());
                }
                let o = e.w.cli_v(&a);
                out.sub_evals += 1;
                out.fault("failing_checkpoint_update_in_history", 1);
                out.trace.push(format!("{} failing update -> {:?}", i, o.code));
                if o.code == Some(0) {
                    // without --pending and with an explicit id nothing needs git; here there is no id, so HEAD must be resolved
                    out.advisories.push("update with an unusable git succeeded".into());
                    if let Some(d) = o.json() {
                        e.cp_doc = Some(d["checkpoint"].clone());
                    }
                }
            }
            GitOp::CpUpdateUnreadable { id } => {
                // git does not list sockets, but it lists a symbolic link; opening the link opens the socket (ENXIO)
                let sock = e.w.root.join(".ctl").join(format!("unreadable-{}.sock", i));
                let link = e.w.root.join(&sc.dirs[0]).join(format!("unreadable-{}.lnk", i));
                let _ = std::fs::remove_file(&sock);
                let _ = std::fs::remove_file(&link);
                let listener = match std::os::unix::net::UnixListener::bind(&sock).and_then(|l| std::os::unix::fs::symlink(&sock, &link).map(|_| l)) {
                    Ok(l) => l,
                    Err(_) => {
                        out.skipped = Some("history_op_failed(harness)".into());
                        return out;
                    }
                };
                let mut a = vec!["checkpoint".to_string(), "update".into(), "--pending".into()];
                if let Some(n) = id {
                    a.push("--id".into());
                    a.push(e.shas[(*n).min(e.shas.len() - 1)].clone());
                }
                let o = e.w.cli_v(&a);
                drop(listener);
                let _ = std::fs::remove_file(&sock);
                let _ = std::fs::remove_file(&link);
                out.sub_evals += 1;
                out.fault("checkpoint_update_with_an_unreadable_pending_path", 1);
                out.trace.push(format!("{} update --pending with an unreadable path -> {:?}", i, o.code));
                if o.code == Some(0) {
                    // a tool that records such a path somehow and succeeds is within its rights: the store is then
                    // whatever that update returned
                    if let Some(d) = o.json() {
                        e.cp_doc = Some(d["checkpoint"].clone());
                        let idv = d["checkpoint"]["id"].as_str().unwrap_or("").to_string();
                        e.cp = Some((idv, BTreeMap::new()));
                    }
                } else {
                    let sh = e.w.cli(&["checkpoint", "show"]);
                    match (&e.cp_doc, sh.code, sh.json()) {
                        (Some(want), Some(0), Some(d)) if d["checkpoint"] == *want => {}
                        (None, c, _) if c != Some(0) => {}
                        (want, c, d) => {
                            out.violate("show_last_update", "changed_by_failed_update", format!("op {}: a failed update (unreadable pending path) changed the store: show exit {:?} {:?}, last successful update returned {:?}", i, c, d.map(|x| x["checkpoint"].clone()), want));
                            break;
                        }
                    }
                }
            }
            GitOp::CpUpdateUnborn { pending } => {
                // HEAD is pointed at a branch without commits (index and working tree stay as they are), the update
                // is attempted, HEAD is pointed back
                let branch = e.w.git(&["symbolic-ref", "HEAD"]).unwrap_or_default().trim().to_string();
                if branch.is_empty() || e.w.git(&["symbolic-ref", "HEAD", &format!("refs/heads/unborn-{}", i)]).is_err() {
                    out.skipped = Some("history_op_failed(harness)".into());
                    return out;
                }
                let mut a = vec!["checkpoint".to_string(), "update".into()];
                if *pending {
                    a.push("--pending".into());
                }
                let o = e.w.cli_v(&a);
                let _ = e.w.git(&["symbolic-ref", "HEAD", &branch]);
                out.sub_evals += 1;
                out.fault("checkpoint_update_while_head_names_no_commit", 1);
                out.trace.push(format!("{} update on an unborn HEAD -> {:?}", i, o.code));
                if o.code == Some(0) {
                    out.violate("head_recorded", "unborn_head_recorded", format!("op {}: HEAD names a branch without commits, yet checkpoint update succeeded and returned {}", i, o.out_str().trim()));
                    break;
                }
                // the store must be what it was
                let sh = e.w.cli(&["checkpoint", "show"]);
                match (&e.cp_doc, sh.code, sh.json()) {
                    (Some(want), Some(0), Some(d)) if d["checkpoint"] == *want => {}
                    (None, c, _) if c != Some(0) => {}
                    (want, c, d) => {
                        out.violate("show_last_update", "changed_by_failed_update", format!("op {}: a failed update on an unborn HEAD changed the store: show exit {:?} {:?}, last successful update returned {:?}", i, c, d.map(|x| x["checkpoint"].clone()), want));
                        break;
                    }
                }
            }
            GitOp::CpUpdate { id, raw_id, pending } => {
                let idv = match (id, raw_id) {
                    (Some(n), _) => Some(e.shas[(*n).min(e.shas.len() - 1)].clone()),
                    (None, Some(r)) => Some(r.clone()),
                    _ => None,
                };
                let o = e.cp_update(idv.as_deref(), *pending);
                out.sub_evals += 1;
                out.trace.push(format!("{} update id={:?} pending={} -> {:?}", i, idv, pending, o.code));
                if o.code != Some(0) {
                    out.violate("show_last_update", "update_failed", format!("op {}: checkpoint update {:?} failed: {}", i, idv, o.err_str().trim()));
                    break;
                }
                let rec = e.cp.as_ref().map(|c| c.0.clone()).unwrap_or_default();
                match &idv {
                    Some(want) => {
                        if rec != *want {
                            out.violate("show_last_update", "id_ignored", format!("op {}: update --id {} recorded id {}", i, want, rec));
                        }
                    }
                    None => {
                        let head = e.w.git(&["rev-parse", "HEAD"]).unwrap_or_default().trim().to_string();
                        if rec != head {
                            out.violate("head_recorded", "not_head", format!("op {}: update without --id recorded {} but HEAD resolves to {}", i, rec, head));
                        }
                    }
                }
                ids.insert(rec);
                if deleted_once {
                    delete_then_update = true;
                }
            }
            GitOp::CpShow => {
                let o = e.w.cli(&["checkpoint", "show"]);
                out.sub_evals += 1;
                out.trace.push(format!("{} show -> {:?}", i, o.code));
                match (&e.cp_doc, o.code, o.json()) {
                    (Some(want), Some(0), Some(d)) => {
                        if d["checkpoint"] != *want {
                            out.violate("show_last_update", "differs", format!("op {}: show returned {} but the last successful update returned {}", i, d["checkpoint"], want));
                        }
                    }
                    (Some(want), c, _) => out.violate("show_last_update", "show_failed", format!("op {}: show failed (exit {:?}: {}) but the last update returned {}", i, c, o.err_str().trim(), want)),
                    (None, Some(0), Some(d)) => out.violate("absent_after_delete", "show_succeeds", format!("op {}: there is no checkpoint but show returned {}", i, d)),
                    (None, _, _) => {}
                }
            }
            GitOp::CpDelete => {
                let o = e.w.cli(&["checkpoint", "delete"]);
                out.sub_evals += 1;
                out.trace.push(format!("{} delete -> {:?}", i, o.code));
                if e.cp_doc.is_some() && o.code != Some(0) {
                    out.violate("absent_after_delete", "delete_failed", format!("op {}: checkpoint delete failed: {}", i, o.err_str().trim()));
                }
                e.cp = None;
                e.cp_doc = None;
                deleted_once = true;
                out.fault("checkpoint_deleted", 1);
            }
            GitOp::OutDelete => {
                let o = e.w.cli(&["out", "delete", "--all"]);
                out.sub_evals += 1;
                out.trace.push(format!("{} out delete --all -> {:?}", i, o.code));
                if o.code == Some(0) {
                    e.cp = None;
                    e.cp_doc = None;
                    deleted_once = true;
                    out.fault("out_deleted", 1);
                } else if e.w.out_dir().exists() {
                    out.violate("absent_after_delete", "out_delete_failed", format!("op {}: out delete --all failed: {}", i, o.err_str().trim()));
                }
            }
            GitOp::OutDeleteFaulty => {
                let saved = e.w.knobs.clone();
                e.w.knobs.push(("LD_PRELOAD".into(), crate::world::shim_path().to_string_lossy().into_owned()));
                e.w.knobs.push(("FSFAULT_ROOT".into(), e.w.out_dir().to_string_lossy().into_owned()));
                e.w.knobs.push(("FSFAULT_UNLINK_FAIL".into(), "tracking".into()));
                let o = e.w.cli(&["out", "delete", "--all"]);
                e.w.knobs = saved;
                out.sub_evals += 1;
                out.fault("removal_below_the_output_directory_fails", 1);
                out.trace.push(format!("{} out delete --all with failing removals -> {:?}", i, o.code));
                if o.code == Some(0) {
                    // it says everything is gone: the following operations hold it to that
                    e.cp = None;
                    e.cp_doc = None;
                    deleted_once = true;
                } else {
                    // a loud failure promises nothing about how far it got; whatever is left must be the old value
                    let s = e.w.cli(&["checkpoint", "show"]);
                    match (&e.cp_doc, s.code, s.json()) {
                        (Some(want), Some(0), Some(d)) if d["checkpoint"] != *want => {
                            out.violate("show_last_update", "changed_by_failed_out_delete", format!("op {}: after a failed out delete show returned {} but the last successful update returned {}", i, d["checkpoint"], want));
                        }
                        (Some(_), Some(0), Some(_)) => {}
                        (None, Some(0), Some(d)) => out.violate("absent_after_delete", "show_succeeds", format!("op {}: there is no checkpoint but show returned {}", i, d)),
                        _ => {
                            e.cp = None;
                            e.cp_doc = None;
                        }
                    }
                }
            }
            GitOp::Analyze { begin, end } => {
                let mut a = vec!["analyze".to_string()];
                if let Some(b) = begin {
                    a.push("--begin".into());
                    a.push(e.shas[(*b).min(e.shas.len() - 1)].clone());
                }
                if let Some(x) = end {
                    a.push("--end".into());
                    a.push(e.shas[(*x).min(e.shas.len() - 1)].clone());
                }
                let o = e.w.cli_v(&a);
                out.sub_evals += 1;
                out.trace.push(format!("{} {:?} -> {:?}", i, a, o.code));
                if e.cp_doc.is_none() {
                    match o.json() {
                        Some(d) if o.code == Some(0) => {
                            let ts: BTreeSet<String> = d["targets"].as_array().map(|x| x.iter().filter_map(|s| s.as_str().map(String::from)).collect()).unwrap_or_default();
                            if d["checkpointed"] != false || ts != all {
                                out.violate("all_targets_without_checkpoint", "analyze", format!("op {}: no checkpoint, but analyze says checkpointed={} targets={:?} (configured {:?})", i, d["checkpointed"], ts, all));
                            }
                        }
                        _ => out.violate("all_targets_without_checkpoint", "analyze_failed", format!("op {}: analyze failed without a checkpoint: {}", i, o.err_str().trim())),
                    }
                }
            }
            GitOp::Run | GitOp::RunFrom { .. } => {
                if e.cp_doc.is_none() {
                    let begin = match op {
                        GitOp::RunFrom { begin } => Some(e.shas[(*begin).min(e.shas.len() - 1)].clone()),
                        _ => None,
                    };
                    let tr = drive_run(&mut e.w, "M1", &RunScript { rand_seed: Some(sc.rand_seed), ..RunScript::simple(RunOpts { commands: vec!["build".into()], begin, ..Default::default() }) }, hang);
                    out.sub_evals += 1;
                    let started: BTreeSet<String> = tr.helpers.iter().map(|h| h.target.clone()).collect();
                    out.trace.push(format!("{} run -> {:?} started {:?}", i, tr.code(), started));
                    if started != all || tr.code() != Some(0) {
                        out.violate("all_targets_without_checkpoint", "run", format!("op {}: no checkpoint, but run started {:?} (configured {:?}), exit {:?} {}", i, started, all, tr.code(), tr.stderr_str().trim()));
                    }
                }
            }
            other => {
                if let Err(m) = e.repo_op(other) {
                    out.advisories.push(format!("op failed: {}", m));
                    out.skipped = Some("history_op_failed(harness)".into());
                    return out;
                }
                if matches!(other, GitOp::Bulk { n, .. } if *n >= 1500) {
                    out.fault("pending_set_whose_document_exceeds_128KiB", 1);
                }
                out.trace.push(format!("{} {:?}", i, other));
            }
        }
        if !out.violations.is_empty() {
            break;
        }
    }
    out.nontrivial = ids.len() >= 2 && delete_then_update;
    out.signature = format!("{:?}", sc.ops);
    out.steps = sc.ops.len() as u64;
    out
}

impl Property for C19 {
    fn id(&self) -> &'static str {
        "C19"
    }
    fn count(&self, tier: Tier) -> usize {
        match tier {
            Tier::Quick => 250,
            Tier::Thorough => 5000,
        }
    }
    fn generate(&self, seed: u64, idx: usize, tier: Tier) -> Value {
        let mut sc = gen_c19(seed, idx, tier);
        amend_some(&mut sc.ops, seed, "C19-amend", idx);
        same_stat_some(&mut sc.ops, seed, "C19-samestat", idx);
        {
            // one history in twenty: 1500-2400 empty untracked files recorded as pending - a stored document far
            // beyond 64 KiB that compresses extremely well (own generator over the finished list)
            let mut brng = Rng::new(scenario_seed(seed, "C19-bulk-same", idx));
            if brng.chance(1, 20) && !sc.dirs.is_empty() && !sc.ops.iter().any(|o| matches!(o, GitOp::Bulk { .. })) {
                let at = brng.below(sc.ops.len() + 1);
                let dir = sc.dirs[brng.below(sc.dirs.len())].clone();
                sc.ops.insert(at, GitOp::CpShow);
                sc.ops.insert(at, GitOp::CpUpdate { id: None, raw_id: None, pending: true });
                sc.ops.insert(at, GitOp::Bulk { dir, n: 1500 + brng.below(900), tag: 20000 });
            }
            // one `update --pending` in three records a fresh untracked file which is edited right afterwards; a run
            // follows, then show: a run reads the checkpoint (the stale entry makes the file count as changed), it
            // does not rewrite it
            let mut k = 0;
            let mut i = 0;
            while i < sc.ops.len() {
                if matches!(&sc.ops[i], GitOp::CpUpdate { pending: true, .. }) && brng.chance(1, 3) && !sc.dirs.is_empty() {
                    k += 1;
                    let p = format!("{}/pend{}.txt", sc.dirs[0], k);
                    sc.ops.insert(i, GitOp::Create { path: p.clone() });
                    sc.ops.insert(i + 2, GitOp::Edit { path: p });
                    sc.ops.insert(i + 3, GitOp::Run);
                    sc.ops.insert(i + 4, GitOp::CpShow);
                    i += 5;
                } else {
                    i += 1;
                }
            }
            // one `out delete --all` in four meets removals that fail
            for op in sc.ops.iter_mut() {
                if matches!(op, GitOp::OutDelete) && brng.chance(1, 4) {
                    *op = GitOp::OutDeleteFaulty;
                }
            }
        }
        serde_json::to_value(sc).unwrap()
    }
    fn execute(&self, v: &Value) -> Outcome {
        match serde_json::from_value::<GitScenario>(v.clone()) {
            Ok(sc) => exec_c19(&sc),
            Err(e) => Outcome::skip(&format!("bad scenario {}", e)),
        }
    }
    fn shrink(&self, v: &Value) -> Vec<Value> {
        serde_json::from_value::<GitScenario>(v.clone()).map(|s| shrink_ops(&s)).unwrap_or_default()
    }
    fn rule(&self) -> String {
        "histories of 8-30 operations from {commit, create file, checkpoint update (no id / --id of any commit / --id arbitrary string, with or without --pending), checkpoint show, checkpoint delete, out delete --all, analyze, run}; register model: show = stdout of the last successful update, update without --id records `git rev-parse HEAD`, after delete / out delete: show fails, analyze reports checkpointed=false and every configured target, run starts a process for every target. Rounds 11-12: amended commits, same-size/same-mtime edits and wrong or jumping wall clocks as in C02; one history in twenty records 1500-2400 identical empty files as pending (a document that compresses extremely well); one `update --pending` in three is followed by an edit of a file it recorded, a run and a show (a run never rewrites the checkpoint); one `out delete --all` in four meets removals that fail below <out>/tracking (failing loudly is tolerated and the old value must survive; exit 0 means the checkpoint is gone). Non-trivial = >= 2 updates with different ids and a delete followed by an update; distinct = the operation list".into()
    }
    fn components(&self) -> Value {
        components()
    }
    fn assumptions(&self) -> Vec<String> {
        vec!["the checkpoint register is compared as the JSON value of the `checkpoint` object (id + pending)".into()]
    }
}
