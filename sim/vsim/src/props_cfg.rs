//! C17: a generated config is usable iff source, output and lockfile are untouched.
use crate::ctl::Ev;
use crate::harness::{scenario_seed, Outcome, Property, Tier};
use crate::prng::Rng;
use crate::runworld::default_hang_ms;
use crate::world::{CmdFile, TargetSpec, World, WorldSpec};
use serde::{Deserialize, Serialize};
use serde_json::{json, Value};
use std::time::Duration;

#[derive(Serialize, Deserialize, Clone, Debug, PartialEq)]
pub enum TamperKind {
    /// replace the byte at `offset` by `value`, or by `alt` if the original byte happens to be `value`
    Subst { offset: usize, value: u8, alt: u8 },
    /// remove the last k bytes
    DropTail { k: usize },
    /// keep only the first `at` bytes
    Truncate { at: usize },
    Append { hex: String },
    /// rewrite the file with identical bytes (must stay accepted)
    RewriteSame,
    /// toggle the case of the nth ASCII letter of the file (counting modulo their number): `ab12` and `AB12`
    /// spell the same digest for a lenient parser, yet the file was touched
    FlipCase { nth: usize },
    /// replace the nth occurrence (modulo their number) of byte `from` by `to`: look-alikes that lenient
    /// parsers and normalisers erase ('0' -> '+', LF -> CR, space -> tab, ...)
    Replace { from: u8, to: u8, nth: usize },
}
#[derive(Serialize, Deserialize, Clone, Copy, Debug, PartialEq)]
pub enum Which {
    Source,
    Generated,
    Lockfile,
}
#[derive(Serialize, Deserialize, Clone, Debug, PartialEq)]
pub struct Tamper {
    pub file: Which,
    pub kind: TamperKind,
    /// the tampered file keeps its original modification time (cp -p, rsync -t, tar extraction)
    #[serde(default)]
    pub keep_mtime: bool,
}

#[derive(Serialize, Deserialize, Clone, Debug)]
pub struct C17Scenario {
    pub n_targets: usize,
    /// padding put into target names to steer the generated file across buffer-size boundaries
    pub name_pad: usize,
    pub source_hex: String,
    /// seeds for tamper choice; offsets are drawn once the file sizes are known
    pub tamper_seed: u64,
    pub n_tampers: usize,
    pub rand_seed: u64,
    /// explicit tampers (replay / minimised); overrides the seeded choice
    #[serde(default)]
    pub only: Vec<Tamper>,
    /// `config generate` and every later invocation run from a sub-directory that holds the source file, with
    /// `-f` naming the configuration in the repository root (source.path is relative to the working directory)
    #[serde(default)]
    pub cwd_sub: bool,
    /// the input given to `config generate` spells out the documented defaults of the source object
    /// (`"checksum": null, "algorithm": null`) instead of omitting them
    #[serde(default)]
    pub explicit_nulls: bool,
}

pub struct C17;

fn gen_c17(seed: u64, idx: usize, tier: Tier) -> C17Scenario {
    let mut sc = gen_c17_base(seed, idx, tier);
    sc.cwd_sub = sc.rand_seed % 4 == 0;
    sc.explicit_nulls = (sc.rand_seed / 4) % 3 == 0;
    sc
}

fn gen_c17_base(seed: u64, idx: usize, tier: Tier) -> C17Scenario {
    let mut rng = Rng::new(scenario_seed(seed, "C17", idx));
    // sizes from ~300 B to ~70 KiB, biased to land around 4096 / 8192 / 16384 / 65536
    let n_targets = match rng.below(8) {
        0 => rng.range(1, 3),
        1 => rng.range(30, 45),
        2 | 3 => rng.range(70, 95),
        4 => rng.range(150, 190),
        5 => rng.range(280, 320),
        _ => rng.range(1, 120),
    };
    let name_pad = rng.below(40);
    let src_len = *rng.pick(&[1usize, 20, 300, 5000, 9000]);
    let mut src = vec![];
    for i in 0..src_len {
        src.push(if rng.chance(1, 10) { rng.below(256) as u8 } else { b"module.exports = {} \n"[i % 21] });
    }
    C17Scenario { n_targets, name_pad, source_hex: crate::proto::hex(&src), tamper_seed: rng.next_u64(), n_tampers: if tier == Tier::Thorough { 40 } else { 10 }, rand_seed: rng.next_u64() % 1_000_000, only: vec![], cwd_sub: false, explicit_nulls: false }
}

fn pick_offsets(rng: &mut Rng, len: usize) -> usize {
    if len == 0 {
        return 0;
    }
    match rng.below(6) {
        0 => rng.below(len.min(64)),
        1 => len - 1 - rng.below(len.min(64)),
        2 | 3 => {
            // around a multiple of 4096
            let ks: Vec<usize> = (1..=len / 4096).collect();
            if ks.is_empty() {
                rng.below(len)
            } else {
                let base = ks[rng.below(ks.len())] * 4096;
                (base as i64 + rng.below(5) as i64 - 2).clamp(0, len as i64 - 1) as usize
            }
        }
        _ => rng.below(len),
    }
}

fn gen_tamper(rng: &mut Rng, sizes: [usize; 3], bytes: [&[u8]; 3]) -> Tamper {
    let file = *rng.pick(&[Which::Source, Which::Generated, Which::Generated, Which::Generated, Which::Lockfile]);
    let i = file as usize;
    let len = sizes[i];
    // first character of a top-level key of the generated file (pretty JSON, two-space indent), replaced by a
    // character that some parsers treat specially
    if file == Which::Generated && rng.chance(1, 5) {
        let b = bytes[1];
        let starts: Vec<usize> = (0..b.len().saturating_sub(4)).filter(|&i| &b[i..i + 4] == b"\n  \"" && b[i + 4] != b' ').map(|i| i + 4).collect();
        if !starts.is_empty() {
            let offset = starts[rng.below(starts.len())];
            let value = *rng.pick(b"$_#@-/~.!");
            return Tamper { file, kind: TamperKind::Subst { offset, value, alt: b'%' }, keep_mtime: rng.chance(1, 3) };
        }
    }
    if rng.chance(1, 6) {
        let nth = rng.below(4096);
        let kind = match rng.below(3) {
            0 => TamperKind::FlipCase { nth },
            _ => {
                let (from, to) = *rng.pick(&[(b'0', b'+'), (b'\n', b'\r'), (b' ', b'\t'), (b'0', b'O'), (b'1', b'l'), (b'"', b'\''), (b'e', b'E'), (b'\n', b' ')]);
                TamperKind::Replace { from, to, nth }
            }
        };
        return Tamper { file, kind, keep_mtime: rng.chance(1, 3) };
    }
    let kind = match rng.below(10) {
        0..=5 => {
            let offset = pick_offsets(rng, len);
            let value = match rng.below(6) {
                0 => b' ',
                1 => b'\n',
                2 => b'0' + rng.below(10) as u8,
                3 => b'"',
                4 => 0,
                _ => rng.below(256) as u8,
            };
            let _ = bytes;
            // the stored bytes depend on the world (ports, checksums); the tamper itself must not
            TamperKind::Subst { offset, value, alt: if value.is_ascii_digit() { b'0' + (value - b'0' + 1) % 10 } else { value.wrapping_add(1) } }
        }
        6 => TamperKind::DropTail { k: 1 + rng.below(3.min(len.max(1))) },
        7 => TamperKind::Truncate { at: pick_offsets(rng, len) },
        8 => TamperKind::Append { hex: crate::proto::hex(*rng.pick(&[&b"\n"[..], &b" "[..], &b"x"[..], &b"{}"[..], &b"\0"[..], &b"\0\0\0\0"[..]])) },
        _ => TamperKind::RewriteSame,
    };
    Tamper { file, kind, keep_mtime: rng.chance(1, 3) }
}

fn apply(t: &TamperKind, orig: &[u8]) -> Vec<u8> {
    match t {
        TamperKind::Subst { offset, value, alt } => {
            let mut v = orig.to_vec();
            if *offset < v.len() {
                v[*offset] = if v[*offset] == *value { *alt } else { *value };
            }
            v
        }
        TamperKind::DropTail { k } => orig[..orig.len().saturating_sub(*k)].to_vec(),
        TamperKind::Truncate { at } => orig[..(*at).min(orig.len())].to_vec(),
        TamperKind::Append { hex } => {
            let mut v = orig.to_vec();
            v.extend(crate::proto::unhex(hex));
            v
        }
        TamperKind::RewriteSame => orig.to_vec(),
        TamperKind::FlipCase { nth } => {
            let mut v = orig.to_vec();
            let at: Vec<usize> = (0..v.len()).filter(|&i| v[i].is_ascii_alphabetic()).collect();
            if !at.is_empty() {
                let i = at[*nth % at.len()];
                v[i] ^= 0x20;
            }
            v
        }
        TamperKind::Replace { from, to, nth } => {
            let mut v = orig.to_vec();
            let at: Vec<usize> = (0..v.len()).filter(|&i| v[i] == *from).collect();
            if !at.is_empty() {
                let i = at[*nth % at.len()];
                v[i] = *to;
            }
            v
        }
    }
}

/// run a CLI invocation with the controller in its environment; returns (exit, children started)
fn controlled(w: &mut World, args: &[&str], hang: Duration) -> Option<(crate::ctl::ProcExit, usize)> {
    let a: Vec<String> = args.iter().map(|s| s.to_string()).collect();
    let p = w.start_m("A", &a, "none", &[]).ok()?;
    let ctl = w.ctl.as_mut()?;
    let mut started = 0;
    loop {
        match ctl.wait_for(|e| matches!(e, Ev::Hello(_)) || matches!(e, Ev::Exit(x) if x.proc_id == p), hang) {
            Some(Ev::Hello(h)) => {
                started += 1;
                ctl.send(h.conn, "EXIT 0\n");
            }
            Some(Ev::Exit(x)) => {
                ctl.kill(p);
                return Some((x, started));
            }
            _ => {
                ctl.kill(p);
                return None;
            }
        }
    }
}

const APIS: [&[&str]; 11] = [
    &["config", "show"],
    &["analyze"],
    &["target", "show", "-g"],
    &["target", "render", "-f", "graph.dot"],
    &["checkpoint", "update"],
    &["checkpoint", "show"],
    &["run", "-c", "build", "-t", "t0000"],
    &["result", "show"],
    &["log", "show", "--stdout", "--stderr"],
    &["out", "delete"],
    &["checkpoint", "delete"],
];

fn exec_c17(sc: &C17Scenario) -> Outcome {
    // world: n targets with padded names; the plain configuration is only used to lay out the tree
    let pad = "p".repeat(sc.name_pad);
    let mut targets = vec![];
    let mut cmd_files = vec![];
    for i in 0..sc.n_targets {
        let path = format!("t{:04}{}", i, pad);
        if i == 0 {
            cmd_files.push(CmdFile { target: path.clone(), command: "build".into(), rel: WorldSpec::default_cmd_rel(&path, "build"), exec: true, broken: false });
        }
        targets.push(TargetSpec { path, ..Default::default() });
    }
    // the first target is always called t0000 so that the API list can name it
    targets[0].path = "t0000".into();
    cmd_files[0].target = "t0000".into();
    cmd_files[0].rel = WorldSpec::default_cmd_rel("t0000", "build");
    // the configuration relies on the default ports (mapped onto the world's own pair at the socket-call boundary), so that
    // the bytes of the generated file, its checksum and therefore which tampers hit which character are functions of
    // the scenario and not of the ports a worker happens to own
    let spec = WorldSpec { targets, cmd_files, files: vec![], sequences: vec![], max_retained_runs: 2, gitignore: vec![], git: true, lock_host: None, default_ports: 1, omit_max_retained: false, sha256_repo: false, clock_plan: vec![], script_wrappers: 0 };
    let mut w = match World::create(&spec, true) {
        Ok(w) => w,
        Err(e) => return Outcome::skip(&format!("world: {}", e)),
    };
    w.set_rand_seed(sc.rand_seed);
    let hang = Duration::from_millis(default_hang_ms());
    let mut out = Outcome::default();
    // ---- config generate
    let src_name = "Monorail.src.js";
    let src_rel_root = if sc.cwd_sub { format!("cfgdir/{}", src_name) } else { src_name.to_string() };
    let src_rel = src_name;
    let source = crate::proto::unhex(&sc.source_hex);
    if w.write_bytes(&src_rel_root, &source).is_err() {
        return Outcome::skip("cannot write source");
    }
    if sc.cwd_sub {
        w.cwd_rel = Some("cfgdir".into());
        out.fault("invocations_from_a_sub_directory_holding_the_source", 1);
    }
    let mut input = spec.config_json(w.ports.lock, w.ports.log);
    input["source"] = if sc.explicit_nulls { json!({ "path": src_rel, "checksum": null, "algorithm": null }) } else { json!({ "path": src_rel }) };
    if sc.explicit_nulls {
        out.fault("generate_input_spells_out_null_checksum_and_algorithm", 1);
    }
    let _ = std::fs::remove_file(w.root.join("Monorail.json"));
    let g = w.cli_stdin(&["config", "generate"], input.to_string().as_bytes());
    if g.code != Some(0) {
        out.violate("accept_untouched", "generate_failed", format!("config generate failed for a valid configuration of {} targets: {}", sc.n_targets, g.err_str().trim()));
        return out;
    }
    let paths = [w.root.join(&src_rel_root), w.root.join("Monorail.json"), w.root.join("Monorail.lock")];
    let orig: Vec<Vec<u8>> = paths.iter().map(|p| std::fs::read(p).unwrap_or_default()).collect();
    let gen_len = orig[1].len();
    out.trace.push(format!("generated {} targets: source {} B, generated {} B, lockfile {} B", sc.n_targets, orig[0].len(), gen_len, orig[2].len()));
    out.probe(&format!("generated_size_over_{}", if gen_len > 65536 { 65536 } else if gen_len > 16384 { 16384 } else if gen_len > 8192 { 8192 } else if gen_len > 4096 { 4096 } else { 0 }), 1);
    // ---- positive phase: untouched files => every API works
    // `out delete` resolves the output directory against the working directory, not against the configuration's
    // directory: from a sub-directory it fails for every configuration, generated or not (not C17's subject)
    let cwd_sub = sc.cwd_sub;
    let positive = |w: &mut World, out: &mut Outcome, label: &str| -> bool {
        for api in APIS.iter().filter(|a| !(cwd_sub && a[0] == "out")) {
            let r = if api[0] == "run" { controlled(w, api, hang) } else { Some((proc_of(w.cli(api)), 0)) };
            out.sub_evals += 1;
            let (x, started) = match r {
                Some(v) => v,
                None => {
                    out.violate("accept_untouched", "hung", format!("{}: {:?} did not finish", label, api));
                    return false;
                }
            };
            // APIs that legitimately fail on an empty store still must not fail because of the configuration
            let e = String::from_utf8_lossy(&x.stderr).into_owned();
            if x.code != Some(0) {
                let class = if gen_len > 8192 { "untouched_rejected_over_8k" } else { "untouched_rejected" };
                out.violate("accept_untouched", class, format!("{} (generated file {} B): {:?} failed with exit {:?}: {}", label, gen_len, api, x.code, e.trim().chars().take(300).collect::<String>()));
                return false;
            }
            if api[0] == "run" && started != 1 {
                out.violate("accept_untouched", "run_started_nothing", format!("{}: run started {} processes", label, started));
                return false;
            }
            if api[0] == "config" {
                let d: Value = serde_json::from_slice(&x.stdout).unwrap_or(Value::Null);
                let n = d["targets"].as_array().map(|a| a.len()).unwrap_or(0);
                if n != sc.n_targets {
                    out.violate("accept_untouched", "config_show_differs", format!("{}: config show lists {} targets, generated from {}", label, n, sc.n_targets));
                    return false;
                }
            }
        }
        true
    };
    if !positive(&mut w, &mut out, "untouched") {
        return out;
    }
    // the positive phase's last two calls removed the checkpoint and (not --all) nothing else; re-create some state
    let _ = w.cli(&["checkpoint", "update"]);
    // ---- a file replaced between two reads of one invocation (one scenario in three): the generated file starts
    // out tampered (a target renamed) and another process puts the original bytes back when it is opened for the
    // k-th time. Rejecting is right; accepting is right if what is shown is the untouched configuration (k = 1: the
    // original was back before anything was read); showing the tampered name with exit 0 means the bytes that were
    // used are not the bytes that were verified.
    if sc.rand_seed % 3 == 0 && sc.only.is_empty() {
        if let Some(pos) = orig[1].windows(5).position(|x| x == b"t0000") {
            let mut tampered = orig[1].clone();
            tampered[pos + 4] = b'Z';
            let alt = w.root.join(".ctl/generated.orig");
            for k in 1..=3 {
                if std::fs::write(&alt, &orig[1]).is_err() || std::fs::write(&paths[1], &tampered).is_err() {
                    break;
                }
                let saved = w.knobs.clone();
                w.knobs.push(("LD_PRELOAD".into(), crate::world::shim_path().to_string_lossy().into_owned()));
                w.knobs.push(("FSFAULT_SWAP".into(), format!("{}|{}|{}", k, paths[1].display(), alt.display())));
                let o = w.cli(&["config", "show"]);
                w.knobs = saved;
                out.sub_evals += 1;
                out.fault("generated_file_replaced_between_two_reads_of_one_invocation", 1);
                let shown = String::from_utf8_lossy(&o.stdout).contains("t000Z");
                out.trace.push(format!("generated file tampered, original restored at its open #{}: config show -> {:?}{}", k, o.code, if shown { " showing the tampered name" } else { "" }));
                if o.code == Some(0) && shown {
                    out.violate("reject_tampered", "accepted:generated:replaced_between_reads", format!("generated file tampered (t0000 -> t000Z) and restored when it was opened for the {}. time: config show exits 0 and lists t000Z - the bytes it used are not the bytes it verified", k));
                }
                let _ = std::fs::write(&paths[1], &orig[1]);
                let _ = std::fs::remove_file(&alt);
                if !out.violations.is_empty() {
                    return out;
                }
            }
        }
    }
    // ---- fault phase
    let mut rng = Rng::new(sc.tamper_seed);
    let tampers: Vec<Tamper> = if !sc.only.is_empty() {
        sc.only.clone()
    } else {
        (0..sc.n_tampers).map(|_| gen_tamper(&mut rng, [orig[0].len(), orig[1].len(), orig[2].len()], [&orig[0], &orig[1], &orig[2]])).collect()
    };
    let lock_checksum = |b: &[u8]| -> Option<String> { serde_json::from_slice::<Value>(b).ok().and_then(|v| v["checksum"].as_str().map(String::from)) };
    let mut elsewhere_rng = Rng::new(sc.tamper_seed ^ 0xE15E);
    for t in &tampers {
        let i = t.file as usize;
        let new = apply(&t.kind, &orig[i]);
        let changed = new != orig[i];
        let must_reject = match t.file {
            Which::Source | Which::Generated => changed,
            Which::Lockfile => changed && lock_checksum(&new) != lock_checksum(&orig[i]),
        };
        let unconstrained = t.file == Which::Lockfile && changed && !must_reject;
        let mtime = std::fs::metadata(&paths[i]).ok().and_then(|m| m.modified().ok());
        if std::fs::write(&paths[i], &new).is_err() {
            return Outcome::skip("cannot tamper");
        }
        if t.keep_mtime {
            if let Some(mt) = mtime {
                // an even older time than the original, as a restored backup would have
                let _ = mt;
                let _ = crate::gitmodel::set_old_mtime(&paths[i]);
                out.fault("tamper_keeping_an_old_mtime", 1);
            }
        }
        let desc = format!("{:?} (file {} B -> {} B)", t, orig[i].len(), new.len());
        out.fault(&format!("tamper_{:?}_{}", t.file, match &t.kind { TamperKind::Subst { .. } => "subst", TamperKind::DropTail { .. } => "droptail", TamperKind::Truncate { .. } => "truncate", TamperKind::Append { .. } => "append", TamperKind::RewriteSame => "rewrite_same", TamperKind::FlipCase { .. } => "flip_case", TamperKind::Replace { .. } => "look_alike_byte" }).to_lowercase(), 1);
        if !changed {
            if !positive(&mut w, &mut out, &format!("after {:?}", t)) {
                out.trace.push(format!("failing tamper: {}", serde_json::to_string(t).unwrap()));
                break;
            }
            let _ = w.cli(&["checkpoint", "update"]);
        } else if must_reject {
            let before = w.snapshot_dir(&w.out_dir());
            // half of the source tampers are looked at from another directory (the configuration is named by its
            // absolute path): whatever the reason given, a changed source must not be accepted from anywhere
            let saved_cwd = w.cwd_rel.clone();
            if t.file == Which::Source && elsewhere_rng.chance(1, 2) && std::fs::create_dir_all(w.root.join("elsewhere/deeper")).is_ok() {
                w.cwd_rel = Some("elsewhere/deeper".into());
                out.fault("tampered_source_examined_from_another_directory", 1);
            }
            for api in APIS.iter() {
                let r = if api[0] == "run" { controlled(&mut w, api, hang) } else { Some((proc_of(w.cli(api)), 0)) };
                out.sub_evals += 1;
                let (x, started) = match r {
                    Some(v) => v,
                    None => {
                        out.violate("reject_tampered", "hung", format!("{}: {:?} did not finish", desc, api));
                        break;
                    }
                };
                let offset_class = match &t.kind {
                    TamperKind::Subst { offset, .. } | TamperKind::Truncate { at: offset } if t.file == Which::Generated && *offset >= 8192 => "generated_beyond_8k",
                    _ => "any",
                };
                if x.code == Some(0) {
                    out.violate("reject_tampered", &format!("accepted:{:?}:{}", t.file, offset_class).to_lowercase(), format!("{}: {:?} succeeded although the file was changed", desc, api));
                    break;
                }
                let errdoc = String::from_utf8_lossy(&x.stderr).lines().rev().find_map(|l| serde_json::from_str::<Value>(l).ok());
                if errdoc.as_ref().map(|e| e["kind"] != "error").unwrap_or(true) {
                    out.violate("reject_tampered", "no_error_document", format!("{}: {:?} exited {:?} without an error document: {:?}", desc, api, x.code, String::from_utf8_lossy(&x.stderr).chars().take(200).collect::<String>()));
                    break;
                }
                if started > 0 {
                    out.violate("action_on_reject", "process_started", format!("{}: run started {} processes", desc, started));
                    break;
                }
            }
            w.cwd_rel = saved_cwd;
            // log tail must refuse to listen
            if out.violations.is_empty() {
                if let Ok(p) = w.start_m("T", &["log".into(), "tail".into(), "--stdout".into()], "none", &[]) {
                    let ctl = w.ctl.as_mut().unwrap();
                    match ctl.wait_exit(p, hang) {
                        Some(x) if x.code != Some(0) => {}
                        Some(x) => out.violate("reject_tampered", "log_tail_exit0", format!("{}: log tail exited {:?}", desc, x.code)),
                        None => {
                            ctl.kill(p);
                            let _ = ctl.wait_exit(p, Duration::from_secs(2));
                            out.violate("action_on_reject", "log_tail_listens", format!("{}: log tail keeps running instead of failing", desc));
                        }
                    }
                    out.sub_evals += 1;
                }
            }
            let after = w.snapshot_dir(&w.out_dir());
            if out.violations.is_empty() && before != after {
                out.violate("action_on_reject", "out_dir_changed", format!("{}: the output directory changed although every API must have refused", desc));
            }
            if std::path::Path::new(&w.root.join("graph.dot")).exists() && out.violations.is_empty() {
                // written by the positive phase; remove so that a wrongly succeeding render would be noticed by exit code anyway
            }
        } else if unconstrained {
            out.probe("lockfile_edit_keeping_checksum_unconstrained", 1);
        }
        let _ = std::fs::write(&paths[i], &orig[i]);
        if !out.violations.is_empty() {
            out.trace.push(format!("failing tamper: {}", serde_json::to_string(t).unwrap()));
            break;
        }
        out.trace.push(format!("tamper {:?} must_reject={} ok", t, must_reject));
    }
    // ---- regeneration over files that are not pristine: generate must leave a consistent triple again
    if out.violations.is_empty() && sc.only.is_empty() {
        let mut rng2 = Rng::new(sc.tamper_seed ^ 0x5eed);
        if rng2.chance(1, 3) {
            // only the generated file is damaged (source and lockfile are as generate left them): generating again
            // from the same input must repair it
            let mut g = orig[1].clone();
            match rng2.below(3) {
                0 => g.truncate(g.len() / 2),
                1 => g.extend_from_slice(b"\n// local edit\n"),
                _ => {
                    if let Some(b) = g.get_mut(7) {
                        *b = if *b == b'x' { b'y' } else { b'x' };
                    }
                }
            }
            let _ = std::fs::write(&paths[1], &g);
            out.fault("regenerate_over_a_damaged_generated_file", 1);
        } else {
            let junk: &[u8] = *rng2.pick(&[&b"\n"[..], &b"\n\n      \n"[..], &b"  // stale tail from an older, longer lockfile .......................\n"[..]]);
            let mut lock = orig[2].clone();
            if rng2.chance(1, 2) {
                // a formatter has pretty-printed the lockfile
                if let Ok(v) = serde_json::from_slice::<Value>(&orig[2]) {
                    lock = serde_json::to_vec_pretty(&v).unwrap_or(lock);
                }
            }
            lock.extend_from_slice(junk);
            let _ = std::fs::write(&paths[2], &lock);
            if rng2.chance(1, 2) {
                let mut src2 = orig[0].clone();
                src2.extend_from_slice(b"// edited\n");
                let _ = std::fs::write(&paths[0], &src2);
            }
            out.fault("regenerate_over_a_longer_or_reformatted_lockfile", 1);
        }
        let g2 = w.cli_stdin(&["config", "generate"], input.to_string().as_bytes());
        if g2.code != Some(0) {
            out.violate("accept_untouched", "regenerate_failed", format!("config generate over an existing (edited) lockfile failed: {}", g2.err_str().trim()));
        } else if !positive(&mut w, &mut out, "after regenerating over an edited lockfile") {
            out.trace.push("regeneration phase failed".into());
        }
    }
    out.nontrivial = tampers.iter().any(|t| t.kind != TamperKind::RewriteSame);
    out.signature = format!("{}|{}|{}|{:?}", sc.n_targets, sc.name_pad, gen_len, tampers);
    out.steps = out.sub_evals;
    out
}

fn proc_of(o: crate::world::CliOut) -> crate::ctl::ProcExit {
    crate::ctl::ProcExit { proc_id: 0, code: o.code, signal: o.signal, stdout: o.stdout, stderr: o.stderr }
}

impl Property for C17 {
    fn id(&self) -> &'static str {
        "C17"
    }
    fn level(&self) -> &'static str {
        "fault_enumeration"
    }
    fn count(&self, tier: Tier) -> usize {
        match tier {
            Tier::Quick => 64,
            Tier::Thorough => 800,
        }
    }
    fn generate(&self, seed: u64, idx: usize, tier: Tier) -> Value {
        serde_json::to_value(gen_c17(seed, idx, tier)).unwrap()
    }
    fn execute(&self, v: &Value) -> Outcome {
        match serde_json::from_value::<C17Scenario>(v.clone()) {
            Ok(sc) => exec_c17(&sc),
            Err(e) => Outcome::skip(&format!("bad scenario {}", e)),
        }
    }
    fn shrink(&self, v: &Value) -> Vec<Value> {
        let mut outv = vec![];
        if let Ok(sc) = serde_json::from_value::<C17Scenario>(v.clone()) {
            if sc.only.is_empty() {
                let o = self.execute(v);
                if let Some(l) = o.trace.iter().find(|l| l.starts_with("failing tamper: ")) {
                    if let Ok(t) = serde_json::from_str::<Tamper>(&l["failing tamper: ".len()..]) {
                        let mut s = sc.clone();
                        s.only = vec![t];
                        outv.push(serde_json::to_value(s).unwrap());
                    }
                } else if !o.violations.is_empty() {
                    // the positive phase failed: no tamper needed
                    let mut s = sc.clone();
                    s.n_tampers = 0;
                    outv.push(serde_json::to_value(s).unwrap());
                }
            }
            if sc.n_targets > 1 {
                for n in [sc.n_targets / 2, sc.n_targets - 1] {
                    if n >= 1 && n < sc.n_targets {
                        let mut s = sc.clone();
                        s.n_targets = n;
                        outv.push(serde_json::to_value(s).unwrap());
                    }
                }
            }
            if sc.name_pad > 0 {
                let mut s = sc.clone();
                s.name_pad = 0;
                outv.push(serde_json::to_value(s).unwrap());
            }
        }
        outv
    }
    fn rule(&self) -> String {
        "a source file of 1 B - 9 KB and a valid configuration of 1-320 targets (generated file ~300 B - 70 KiB, biased to cross 4096 / 8192 / 16384 / 65536 bytes); config generate; positive phase: all 11 config-reading APIs (config show, analyze, target show -g, target render, checkpoint update/show/delete, run, result show, log show, out delete) succeed on the untouched files and after rewriting them with identical bytes; fault phase, per scenario 10 (thorough 40) seeded tampers: file in {source, generated, lockfile} x {substitute one byte by a different byte (whitespace, digit, quote, NUL, random), drop the last 1-3 bytes, truncate, append} x offset from {first/last 64 bytes, +-2 around every multiple of 4096, uniform}; one scenario in three also has the generated file start out tampered and replaced by the original when it is opened for the 1st/2nd/3rd time within one `config show` (shim seam): exit 0 together with the tampered content is a violation; after each tamper every API must exit non-zero with an error document, start no process, leave the output directory unchanged, and log tail must refuse to listen. Lockfile edits that keep the checksum string are unconstrained. Non-trivial = at least one byte-changing tamper; distinct = (targets, padding, generated size, tampers)".into()
    }
    fn components(&self) -> Value {
        json!({
            "real": ["monorail binary: config generate, Config::new, Config::check, every subcommand", "tmpfs"],
            "stub": ["children are vhelper"],
            "controlled": ["stored bytes of the three files between invocations"]
        })
    }
    fn assumptions(&self) -> Vec<String> {
        vec!["the tamper happens between invocations, never while one is reading".into(), "a lockfile edit is judged by whether the parsed checksum string changed".into()]
    }
}
