//! vclock (engine E-A): the real log pipeline of monorail (process_reader -> CompressorClient ->
//! Compressor) driven in-process under tokio's paused clock. With the clock paused tokio is a
//! discrete-event simulator: when no task is runnable it jumps to the next timer, so the 500 ms
//! flush tick costs microseconds and lands exactly where the script puts it. `rng_seed` makes the
//! branch order of `select!` a function of the seed. Children are scripted in-memory readers.
use serde_json::{json, Value};
use std::collections::{BTreeMap, HashSet, VecDeque};
use std::path::PathBuf;
use std::pin::Pin;
use std::task::{Context, Poll};
use std::time::Duration;
use tokio::io::{AsyncRead, ReadBuf};

// ---- PRNG (same generator as vsim)
fn splitmix(x: &mut u64) -> u64 {
    *x = x.wrapping_add(0x9E3779B97F4A7C15);
    let mut z = *x;
    z = (z ^ (z >> 30)).wrapping_mul(0xBF58476D1CE4E5B9);
    z = (z ^ (z >> 27)).wrapping_mul(0x94D049BB133111EB);
    z ^ (z >> 31)
}
struct Rng {
    s: [u64; 4],
}
impl Rng {
    fn new(seed: u64) -> Self {
        let mut x = seed;
        Rng { s: [splitmix(&mut x), splitmix(&mut x), splitmix(&mut x), splitmix(&mut x)] }
    }
    fn next(&mut self) -> u64 {
        let r = self.s[1].wrapping_mul(5).rotate_left(7).wrapping_mul(9);
        let t = self.s[1] << 17;
        self.s[2] ^= self.s[0];
        self.s[3] ^= self.s[1];
        self.s[1] ^= self.s[2];
        self.s[0] ^= self.s[3];
        self.s[2] ^= t;
        self.s[3] = self.s[3].rotate_left(45);
        r
    }
    fn below(&mut self, n: usize) -> usize {
        if n <= 1 {
            0
        } else {
            (self.next() % n as u64) as usize
        }
    }
    fn chance(&mut self, a: u32, b: u32) -> bool {
        self.next() % (b as u64) < a as u64
    }
}
fn mix(parts: &[u64]) -> u64 {
    let mut h: u64 = 0x243F6A8885A308D3;
    for p in parts {
        let mut x = h ^ p.wrapping_mul(0x9E3779B97F4A7C15);
        h = splitmix(&mut x);
    }
    h
}
fn fnv(b: &[u8]) -> u64 {
    let mut h: u64 = 0xcbf29ce484222325;
    for x in b {
        h ^= *x as u64;
        h = h.wrapping_mul(0x100000001b3);
    }
    h
}

// ---- script
#[derive(Clone, Debug)]
struct Chunk {
    at_ms: u64,
    bytes: Vec<u8>,
    class: &'static str,
}
#[derive(Clone, Debug, Default)]
struct Stream {
    chunks: Vec<Chunk>,
    eof_ms: u64,
}
#[derive(Clone, Debug, Default)]
struct Script {
    tasks: Vec<[Stream; 2]>,
    tokio_seed: u64,
    cancel_ms: Option<u64>,
}

fn hexs(b: &[u8]) -> String {
    let mut s = String::with_capacity(b.len() * 2);
    for x in b {
        s.push_str(&format!("{:02x}", x));
    }
    s
}
fn unhex(s: &str) -> Vec<u8> {
    let v = |c: u8| -> u8 {
        match c {
            b'0'..=b'9' => c - b'0',
            b'a'..=b'f' => c - b'a' + 10,
            _ => 0,
        }
    };
    s.as_bytes().chunks(2).map(|p| (v(p[0]) << 4) | v(*p.get(1).unwrap_or(&b'0'))).collect()
}

impl Script {
    fn to_json(&self) -> Value {
        json!({
            "tokio_seed": self.tokio_seed,
            "cancel_ms": self.cancel_ms,
            "tasks": self.tasks.iter().map(|t| {
                t.iter().map(|s| json!({"eof_ms": s.eof_ms, "chunks": s.chunks.iter().map(|c| {
                    // long chunks are stored run-length style to keep replay files small
                    json!({"at_ms": c.at_ms, "hex": hexs(&c.bytes), "class": c.class})
                }).collect::<Vec<_>>()})).collect::<Vec<_>>()
            }).collect::<Vec<_>>()
        })
    }
    fn from_json(v: &Value) -> Option<Script> {
        let mut tasks = vec![];
        for t in v["tasks"].as_array()? {
            let a = t.as_array()?;
            let mut pair: [Stream; 2] = Default::default();
            for (i, s) in a.iter().enumerate().take(2) {
                let mut st = Stream { chunks: vec![], eof_ms: s["eof_ms"].as_u64()? };
                for c in s["chunks"].as_array()? {
                    st.chunks.push(Chunk { at_ms: c["at_ms"].as_u64()?, bytes: unhex(c["hex"].as_str()?), class: "replayed" });
                }
                pair[i] = st;
            }
            tasks.push(pair);
        }
        Some(Script { tasks, tokio_seed: v["tokio_seed"].as_u64().unwrap_or(0), cancel_ms: v["cancel_ms"].as_u64() })
    }
}

const TICK: u64 = 500;

fn gen_stream(rng: &mut Rng, tag: &str, max_chunks: usize, heavy: bool) -> Stream {
    let n = rng.below(max_chunks + 1);
    let mut t: u64 = 0;
    let mut chunks = vec![];
    let mut line_no = 0;
    let mut open_line = false; // a line is pending (no newline yet)
    for _ in 0..n {
        // arrival time: mixture centred on the tick lattice so that ties and straddles are common
        t = match rng.below(8) {
            0 => t,
            1 => t + 1,
            2 => t + rng.below(40) as u64,
            _ => {
                let k = (t / TICK) + 1 + if rng.chance(1, 5) { 1 } else { 0 };
                let base = k * TICK;
                let off: i64 = match rng.below(6) {
                    0 => -1,
                    1 | 2 => 0,
                    3 => 1,
                    4 => 250,
                    _ => -250,
                };
                ((base as i64 + off).max(t as i64)) as u64
            }
        };
        let (bytes, class): (Vec<u8>, &'static str) = match rng.below(if heavy { 17 } else { 13 }) {
            0..=3 => {
                line_no += 1;
                open_line = false;
                (format!("{}:{} complete line\n", tag, line_no).into_bytes(), "line")
            }
            4 | 5 => {
                line_no += 1;
                open_line = true;
                (format!("{}:{} part", tag, line_no).into_bytes(), "partial")
            }
            6 => {
                open_line = false;
                (b" rest\n".to_vec(), "rest")
            }
            7 => {
                line_no += 2;
                open_line = false;
                (format!("{}:{} a\n{}:{} b\n", tag, line_no - 1, tag, line_no).into_bytes(), "two_lines")
            }
            8 => {
                open_line = false;
                (b"\n".to_vec(), "newline")
            }
            9 => {
                open_line = false;
                (vec![0u8, b'\r', b'\n', 0xff, 0xfe, 0xc3, 0x28, b'\n'], "binary")
            }
            10 => {
                open_line = true;
                (format!("{}:x", tag).into_bytes(), "tiny_partial")
            }
            11 => {
                open_line = false;
                (b"\r\n".to_vec(), "crlf")
            }
            12 => {
                line_no += 1;
                open_line = true;
                (format!("{}:{} no newline at all", tag, line_no).into_bytes(), "partial")
            }
            13 => {
                // a line longer than the BufReader (8 KiB) and than a pipe buffer
                line_no += 1;
                open_line = false;
                let mut v = format!("{}:{} ", tag, line_no).into_bytes();
                v.extend(std::iter::repeat(b'Z').take(100 * 1024));
                v.push(b'\n');
                (v, "huge_line")
            }
            14 => {
                open_line = false;
                let mut v = vec![];
                for i in 0..2000 {
                    v.push(b'a' + (i % 26) as u8);
                    v.push(b'\n');
                }
                (v, "many_tiny_lines")
            }
            15 => {
                open_line = true;
                let mut v = format!("{}:big-partial ", tag).into_bytes();
                v.extend(std::iter::repeat(b'P').take(9000));
                (v, "partial_over_bufreader")
            }
            _ => {
                // poorly compressible volume well beyond one zstd block (128 KiB): lines of pseudo-random text
                open_line = false;
                let mut v = Vec::with_capacity(300 * 1024);
                let total = 140 * 1024 + rng.below(200 * 1024);
                while v.len() < total {
                    line_no += 1;
                    v.extend_from_slice(format!("{}:{} ", tag, line_no).as_bytes());
                    let long = rng.chance(1, 8);
                    let ll = 40 + rng.below(if long { 150_000 } else { 200 });
                    for _ in 0..ll {
                        v.push(b"ABCDEFGHIJKLMNOPQRSTUVWXYZabcdefghijklmnopqrstuvwxyz0123456789+/"[(rng.next() & 63) as usize]);
                    }
                    v.push(b'\n');
                }
                (v, "incompressible_volume")
            }
        };
        chunks.push(Chunk { at_ms: t, bytes, class });
    }
    let _ = open_line;
    // EOF at, just before/after a tick, or right after the last chunk
    let eof_ms = match rng.below(6) {
        0 => t,
        1 => t + 1,
        2 => ((t / TICK) + 1) * TICK,
        3 => ((t / TICK) + 1) * TICK - 1,
        4 => ((t / TICK) + 1) * TICK + 1,
        _ => t + rng.below(1200) as u64,
    };
    Stream { chunks, eof_ms }
}

fn gen_script(seed: u64, idx: u64, cancel: bool) -> Script {
    let mut rng = Rng::new(mix(&[seed, 0xC08, idx]));
    let wide = rng.chance(1, 6);
    let nt = 1 + rng.below(if wide { 8 } else { 3 });
    let heavy = rng.chance(1, 12);
    let max_chunks = if rng.chance(1, 10) { 32 } else { 8 };
    let mut tasks = vec![];
    for t in 0..nt {
        let so = gen_stream(&mut rng, &format!("T{}o", t), max_chunks, heavy);
        let se = gen_stream(&mut rng, &format!("T{}e", t), max_chunks, heavy);
        tasks.push([so, se]);
    }
    let cancel_ms = if cancel { Some(rng.below(2500) as u64) } else { None };
    Script { tasks, tokio_seed: rng.next(), cancel_ms }
}

// ---- scripted reader
struct ScriptedReader {
    start: tokio::time::Instant,
    chunks: VecDeque<(u64, Vec<u8>, usize)>, // (at_ms, bytes, consumed)
    eof_ms: u64,
    sleep: Option<Pin<Box<tokio::time::Sleep>>>,
}
impl ScriptedReader {
    fn new(start: tokio::time::Instant, s: &Stream) -> Self {
        ScriptedReader { start, chunks: s.chunks.iter().map(|c| (c.at_ms, c.bytes.clone(), 0)).collect(), eof_ms: s.eof_ms, sleep: None }
    }
}
impl AsyncRead for ScriptedReader {
    fn poll_read(mut self: Pin<&mut Self>, cx: &mut Context<'_>, buf: &mut ReadBuf<'_>) -> Poll<std::io::Result<()>> {
        loop {
            let now_ms = tokio::time::Instant::now().duration_since(self.start).as_millis() as u64;
            let next_at = match self.chunks.front() {
                Some((at, _, _)) => *at,
                None => self.eof_ms,
            };
            if next_at <= now_ms {
                match self.chunks.front_mut() {
                    Some((_, bytes, used)) => {
                        if bytes.len() == *used {
                            self.chunks.pop_front();
                            continue;
                        }
                        let n = (bytes.len() - *used).min(buf.remaining());
                        buf.put_slice(&bytes[*used..*used + n]);
                        *used += n;
                        if *used == bytes.len() {
                            self.chunks.pop_front();
                        }
                        return Poll::Ready(Ok(()));
                    }
                    None => return Poll::Ready(Ok(())), // EOF
                }
            }
            let deadline = self.start + Duration::from_millis(next_at);
            let mut sl = Box::pin(tokio::time::sleep_until(deadline));
            match sl.as_mut().poll(cx) {
                Poll::Ready(_) => continue,
                Poll::Pending => {
                    self.sleep = Some(sl);
                    return Poll::Pending;
                }
            }
        }
    }
}
use std::future::Future;

// ---- one execution
#[derive(Debug, Clone)]
struct Failure {
    check: String,
    class: String,
    msg: String,
}
struct RunOut {
    failure: Option<Failure>,
    probes: BTreeMap<String, u64>,
    virtual_ms: u64,
}

fn expected(s: &Stream) -> Vec<u8> {
    let mut v = vec![];
    for c in &s.chunks {
        v.extend_from_slice(&c.bytes);
    }
    v
}
fn show(b: &[u8]) -> String {
    let mut s = String::new();
    for &c in b.iter().take(100) {
        match c {
            b'\n' => s.push_str("\\n"),
            0x20..=0x7e => s.push(c as char),
            _ => s.push_str(&format!("\\x{:02x}", c)),
        }
    }
    if b.len() > 100 {
        s.push_str(&format!("...({} bytes)", b.len()));
    }
    s
}

fn run_script(sc: &Script, dir: &PathBuf) -> RunOut {
    let _ = std::fs::remove_dir_all(dir);
    std::fs::create_dir_all(dir).unwrap();
    let rt = tokio::runtime::Builder::new_current_thread().enable_time().start_paused(true).rng_seed(tokio::runtime::RngSeed::from_bytes(&sc.tokio_seed.to_le_bytes())).build().unwrap();
    let _ = monorail::verif::take_probes();
    let paths: Vec<(PathBuf, PathBuf)> = (0..sc.tasks.len()).map(|i| (dir.join(format!("t{}.stdout.zst", i)), dir.join(format!("t{}.stderr.zst", i)))).collect();
    let (res, virtual_ms) = rt.block_on(async {
        let start = tokio::time::Instant::now();
        let tasks: Vec<monorail::verif::CaptureTask<ScriptedReader>> = sc
            .tasks
            .iter()
            .enumerate()
            .map(|(i, t)| monorail::verif::CaptureTask { stdout: ScriptedReader::new(start, &t[0]), stderr: ScriptedReader::new(start, &t[1]), stdout_path: paths[i].0.clone(), stderr_path: paths[i].1.clone() })
            .collect();
        let r = monorail::verif::capture(tasks, sc.cancel_ms.map(Duration::from_millis)).await;
        (r, tokio::time::Instant::now().duration_since(start).as_millis() as u64)
    });
    drop(rt);
    let probes: BTreeMap<String, u64> = monorail::verif::take_probes().into_iter().map(|(k, v)| (k.to_string(), v)).collect();
    let mut failure = None;
    match res {
        Err(e) => failure = Some(Failure { check: "capture_ok".into(), class: "capture_error".into(), msg: format!("capture failed: {}", e) }),
        Ok(per_task) => {
            for (i, t) in sc.tasks.iter().enumerate() {
                if failure.is_some() {
                    break;
                }
                let cancelled = sc.cancel_ms.is_some();
                if let Err(e) = &per_task[i] {
                    if !cancelled {
                        failure = Some(Failure { check: "capture_ok".into(), class: "task_error".into(), msg: format!("task {} reader failed without cancellation: {}", i, e) });
                        break;
                    }
                }
                for (k, name) in [(0usize, "stdout"), (1usize, "stderr")] {
                    let p = if k == 0 { &paths[i].0 } else { &paths[i].1 };
                    let want = expected(&t[k]);
                    let got = match std::fs::read(p) {
                        Ok(b) => match zstd::stream::decode_all(&b[..]) {
                            Ok(d) => d,
                            Err(e) => {
                                failure = Some(Failure { check: "stored_bytes".into(), class: "undecodable".into(), msg: format!("task {} {}: stored log does not decode: {} ({} bytes on disk)", i, name, e, b.len()) });
                                break;
                            }
                        },
                        Err(e) => {
                            failure = Some(Failure { check: "stored_bytes".into(), class: "missing_file".into(), msg: format!("task {} {}: log file missing: {}", i, name, e) });
                            break;
                        }
                    };
                    // with cancellation: streams that reached EOF before the cancel must be exact, others a prefix
                    let must_be_exact = match sc.cancel_ms {
                        None => true,
                        Some(c) => t[k].eof_ms < c && t[1 - k].eof_ms < c,
                    };
                    if got == want {
                        continue;
                    }
                    if !must_be_exact && want.starts_with(&got) {
                        continue;
                    }
                    // classify
                    let other_tags: Vec<String> = (0..sc.tasks.len()).flat_map(|j| vec![format!("T{}o:", j), format!("T{}e:", j)]).filter(|tag| *tag != format!("T{}{}:", i, if k == 0 { "o" } else { "e" })).collect();
                    let gs = String::from_utf8_lossy(&got).into_owned();
                    let foreign = other_tags.iter().any(|tag| gs.contains(tag.as_str()));
                    let (check, class) = if foreign {
                        ("foreign_bytes", "other_task_bytes")
                    } else if got.len() < want.len() {
                        ("stored_bytes", "bytes_lost")
                    } else if got.len() > want.len() {
                        ("stored_bytes", "bytes_duplicated")
                    } else {
                        ("stored_bytes", "bytes_differ")
                    };
                    let pos = got.iter().zip(want.iter()).position(|(a, b)| a != b).unwrap_or(got.len().min(want.len()));
                    failure = Some(Failure { check: check.into(), class: class.into(), msg: format!("task {} {}: stored {} bytes, process wrote {} bytes; first difference at offset {}: stored {:?} vs written {:?}", i, name, got.len(), want.len(), pos, show(&got[pos.min(got.len())..]), show(&want[pos.min(want.len())..])) });
                    break;
                }
            }
        }
    }
    RunOut { failure, probes, virtual_ms }
}

fn features(sc: &Script) -> (BTreeMap<String, u64>, u64, bool) {
    // probes computed from the script itself + a shape signature
    let mut p: BTreeMap<String, u64> = BTreeMap::new();
    let mut sig: Vec<u8> = vec![];
    let mut straddle = false;
    for t in &sc.tasks {
        for s in t.iter() {
            let mut open = false;
            let mut last_t = 0u64;
            for c in &s.chunks {
                if c.at_ms > 0 && c.at_ms % TICK == 0 {
                    *p.entry("tie_tick_vs_data".into()).or_insert(0) += 1;
                }
                if open && c.at_ms / TICK > last_t / TICK {
                    straddle = true;
                    *p.entry("pause_straddles_tick_mid_line".into()).or_insert(0) += 1;
                }
                if c.bytes.len() > 8192 {
                    *p.entry("line_over_bufreader".into()).or_insert(0) += 1;
                }
                if c.class == "incompressible_volume" {
                    *p.entry("incompressible_volume_over_128k".into()).or_insert(0) += 1;
                }
                open = !c.bytes.ends_with(b"\n");
                last_t = c.at_ms;
                let phase = match c.at_ms % TICK {
                    0 => 0u8,
                    1 => 1,
                    499 => 2,
                    250 => 3,
                    _ => 4,
                };
                sig.extend_from_slice(c.class.as_bytes());
                sig.push(phase);
                sig.push((c.at_ms / TICK).min(255) as u8);
            }
            if open {
                *p.entry("eof_without_newline".into()).or_insert(0) += 1;
                if s.eof_ms / TICK > last_t / TICK {
                    straddle = true;
                }
            }
            if s.chunks.is_empty() {
                *p.entry("empty_stream".into()).or_insert(0) += 1;
            }
            if s.eof_ms % TICK == 0 && s.eof_ms > 0 {
                *p.entry("eof_on_tick".into()).or_insert(0) += 1;
            }
            sig.push(0xfe);
        }
        sig.push(0xff);
    }
    if sc.cancel_ms.is_some() {
        sig.push(0xcc);
    }
    (p, fnv(&sig), straddle)
}

fn shrink(sc: &Script, dir: &PathBuf, key: &str) -> Script {
    let mut cur = sc.clone();
    let mut budget = 300;
    let fails = |s: &Script, budget: &mut i32| -> bool {
        *budget -= 1;
        run_script(s, dir).failure.map(|f| format!("{}/{}", f.check, f.class) == key).unwrap_or(false)
    };
    loop {
        let mut progress = false;
        // drop tasks
        let mut i = 0;
        while i < cur.tasks.len() && cur.tasks.len() > 1 && budget > 0 {
            let mut c = cur.clone();
            c.tasks.remove(i);
            if fails(&c, &mut budget) {
                cur = c;
                progress = true;
            } else {
                i += 1;
            }
        }
        // drop chunks
        for ti in 0..cur.tasks.len() {
            for k in 0..2 {
                let mut ci = 0;
                while ci < cur.tasks[ti][k].chunks.len() && budget > 0 {
                    let mut c = cur.clone();
                    c.tasks[ti][k].chunks.remove(ci);
                    if fails(&c, &mut budget) {
                        cur = c;
                        progress = true;
                    } else {
                        ci += 1;
                    }
                }
            }
        }
        // shorten bytes
        for ti in 0..cur.tasks.len() {
            for k in 0..2 {
                for ci in 0..cur.tasks[ti][k].chunks.len() {
                    if budget <= 0 {
                        break;
                    }
                    let b = cur.tasks[ti][k].chunks[ci].bytes.clone();
                    if b.len() > 4 {
                        let mut c = cur.clone();
                        let nl = b.ends_with(b"\n");
                        let mut nb = b[..2].to_vec();
                        if nl {
                            nb.push(b'\n');
                        }
                        c.tasks[ti][k].chunks[ci].bytes = nb;
                        if fails(&c, &mut budget) {
                            cur = c;
                            progress = true;
                        }
                    }
                }
            }
        }
        if !progress || budget <= 0 {
            break;
        }
    }
    cur
}

fn main() {
    let args: Vec<String> = std::env::args().collect();
    let scratch = PathBuf::from(format!("/dev/shm/mv-vclock-{}", std::process::id()));
    match args.get(1).map(|s| s.as_str()) {
        Some("batch") => {
            let seed: u64 = args[2].parse().unwrap();
            let start: u64 = args[3].parse().unwrap();
            let count: u64 = args[4].parse().unwrap();
            let mut probes: BTreeMap<String, u64> = BTreeMap::new();
            let mut sigs: HashSet<u64> = HashSet::new();
            let mut failures = vec![];
            let mut virtual_ms = 0u64;
            let mut cancel_runs = 0u64;
            let t0 = std::time::Instant::now();
            for i in start..start + count {
                // one run in eight uses the (relaxed) cancellation configuration, kept separate from the strict one
                let cancel = i % 8 == 7;
                let sc = gen_script(seed, i, cancel);
                let (feat, sig, straddle) = features(&sc);
                let o = run_script(&sc, &scratch);
                virtual_ms += o.virtual_ms;
                if cancel {
                    cancel_runs += 1;
                }
                for (k, v) in feat.iter().chain(o.probes.iter()) {
                    *probes.entry(k.clone()).or_insert(0) += v;
                }
                let nontrivial = straddle || feat.contains_key("tie_tick_vs_data") || o.probes.contains_key("tick_with_partial_line");
                if nontrivial {
                    sigs.insert(sig);
                }
                if let Some(f) = o.failure {
                    if failures.len() < 3 {
                        let key = format!("{}/{}", f.check, f.class);
                        let min = shrink(&sc, &scratch, &key);
                        let mo = run_script(&min, &scratch);
                        let (fin, ff) = match mo.failure {
                            Some(x) if format!("{}/{}", x.check, x.class) == key => (min, x),
                            _ => (sc.clone(), f),
                        };
                        failures.push(json!({"index": i, "check": ff.check, "class": ff.class, "msg": ff.msg, "script": fin.to_json(), "cancel": cancel}));
                    }
                }
            }
            let _ = std::fs::remove_dir_all(&scratch);
            let mut sig_list: Vec<u64> = sigs.into_iter().collect();
            sig_list.sort();
            println!("{}", json!({"evaluated": count, "virtual_ms": virtual_ms, "cancel_runs": cancel_runs, "probes": probes, "sigs": sig_list, "failures": failures, "wall_ms": t0.elapsed().as_millis() as u64}));
        }
        Some("one") => {
            let v: Value = serde_json::from_str(&std::fs::read_to_string(&args[2]).unwrap()).unwrap();
            let sc = Script::from_json(&v).expect("bad script");
            let o = run_script(&sc, &scratch);
            let _ = std::fs::remove_dir_all(&scratch);
            println!("{}", json!({"failure": o.failure.map(|f| json!({"check": f.check, "class": f.class, "msg": f.msg})), "probes": o.probes, "virtual_ms": o.virtual_ms}));
        }
        Some("trace") => {
            // determinism self-test: print a digest of the stored files for a range of scripts
            let seed: u64 = args[2].parse().unwrap();
            let start: u64 = args[3].parse().unwrap();
            let count: u64 = args[4].parse().unwrap();
            for i in start..start + count {
                let sc = gen_script(seed, i, i % 8 == 7);
                let o = run_script(&sc, &scratch);
                let mut digest = 0u64;
                for t in 0..sc.tasks.len() {
                    for n in ["stdout", "stderr"] {
                        let b = std::fs::read(scratch.join(format!("t{}.{}.zst", t, n))).unwrap_or_default();
                        let d = zstd::stream::decode_all(&b[..]).unwrap_or_default();
                        digest = mix(&[digest, fnv(&d)]);
                    }
                }
                println!("{} {} {:?} {:?} {}", i, digest, o.probes, o.failure.map(|f| f.class), o.virtual_ms);
            }
            let _ = std::fs::remove_dir_all(&scratch);
        }
        _ => {
            eprintln!("usage: vclock batch <seed> <start> <count> | one <script.json> | trace <seed> <start> <count>");
            std::process::exit(2);
        }
    }
}
