fn main(){}
