#!/bin/bash
# Confirm a sub-agent's seeded change and store it under seeded/<id>-<n>/:
#   applies to a clean checkout, compiles, keeps the repository's test suite green,
#   its demonstration fails with the change and passes without it.
#   ./intake_seeded.sh <ID> [n ...]
set -u
ID="$1"; shift
NS="${@:-1 2}"
SRC="$(cd "$(dirname "$0")" && pwd)"
OUTD=/tmp/mut-$ID-out
WT=/dev/shm/intake-$ID
git -C /repo worktree remove --force "$WT" 2>/dev/null; rm -rf "$WT"
git -C /repo worktree add -q --detach "$WT" HEAD || exit 2
export CARGO_NET_OFFLINE=true
( cd "$WT" && cargo build --offline -q 2>/dev/null ) || { echo "clean build failed"; exit 2; }
cp "$WT/target/debug/monorail" /dev/shm/intake-$ID-clean.bin
for n in $NS; do
  P=$OUTD/patch$n.diff; D=$OUTD/demo$n.sh; M=$OUTD/meta$n.json
  [ -f "$P" ] && [ -f "$D" ] || { echo "$ID-$n: missing files"; continue; }
  git -C "$WT" checkout -q -- . ; git -C "$WT" clean -fdq -e target
  if ! git -C "$WT" apply "$P"; then echo "$ID-$n: patch does not apply"; continue; fi
  if git -C "$WT" diff --stat | grep -q "verif.rs"; then echo "$ID-$n: touches verif.rs"; fi
  if ! ( cd "$WT" && cargo build --offline -q 2>/dev/shm/intake-$ID-build.log ); then echo "$ID-$n: does not compile"; tail -5 /dev/shm/intake-$ID-build.log; continue; fi
  tests=$( cd "$WT" && cargo test --workspace --no-fail-fast --offline 2>&1 | grep -E "^test result" | head -1 )
  failed=$( cd "$WT" && cargo test --workspace --no-fail-fast --offline 2>&1 | grep -E "^test .* FAILED" | grep -v test_handle_run | head -5 )
  # the three lock-server unit tests bind the fixed default port 5917 and fail when anything else on the machine
  # holds it at that moment: a test that failed is re-run on its own (up to 3 times) before it counts
  if [ -n "$failed" ]; then
    still=""
    for t in $(echo "$failed" | sed -E 's/^test ([^ ]+) .*/\1/'); do
      ok=0
      for k in 1 2 3; do
        if ( cd "$WT" && cargo test --offline -q "$t" -- --exact >/dev/null 2>&1 ); then ok=1; break; fi
        sleep 1
      done
      [ $ok -eq 0 ] && still="$still $t"
    done
    failed="$still"
  fi
  cp "$WT/target/debug/monorail" /dev/shm/intake-$ID-patched.bin
  chmod +x "$D"
  ( cd /dev/shm && timeout 600 bash "$D" /dev/shm/intake-$ID-clean.bin >/dev/shm/intake-$ID-demo-clean.log 2>&1 ); rc_clean=$?
  ( cd /dev/shm && timeout 600 bash "$D" /dev/shm/intake-$ID-patched.bin >/dev/shm/intake-$ID-demo-patched.log 2>&1 ); rc_patched=$?
  verdict="REJECTED"
  if [ $rc_clean -eq 0 ] && [ $rc_patched -ne 0 ] && [ -z "$failed" ]; then verdict="CONFIRMED"; fi
  echo "$ID-$n: $verdict tests=[$tests] failed=[$failed] demo_clean_rc=$rc_clean demo_patched_rc=$rc_patched"
  if [ "$verdict" = "CONFIRMED" ]; then
    DST="$SRC/seeded/$ID-${ROUND:+$ROUND-}$n"; mkdir -p "$DST"
    cp "$P" "$DST/patch.diff"; cp "$D" "$DST/demo.sh"
    python3 - "$M" "$DST/meta.json" "$ID" "$tests" "$rc_clean" "$rc_patched" <<'PY'
import json,sys
src,dst,pid,tests,rc,rp=sys.argv[1:7]
try: m=json.load(open(src))
except Exception: m={}
out={"property":pid,"summary":m.get("summary",""),"needs":m.get("needs",""),"files":m.get("files",[]),
     "author":"fresh sub-agent given only the property text and a scratch worktree",
     "confirmed":{"applies_to":"git worktree of /repo HEAD","compiles":True,"test_suite":tests,"demo_on_clean_rc":int(rc),"demo_on_patched_rc":int(rp),
                  "ran":["git apply patch.diff","cargo build --offline","cargo test --workspace --no-fail-fast --offline","demo.sh <clean binary>","demo.sh <patched binary>"]},
     "agent_ran":m.get("ran",[])}
json.dump(out,open(dst,"w"),indent=1)
PY
  else
    tail -5 /dev/shm/intake-$ID-demo-clean.log; echo ...; tail -5 /dev/shm/intake-$ID-demo-patched.log
  fi
done
git -C /repo worktree remove --force "$WT"; rm -rf "$WT" /dev/shm/intake-$ID-*
