/* fsfault: LD_PRELOAD shim used by the monorail simulation.
 *
 *  1. Filesystem-effect seam. Inert unless the process is `monorail` and FSFAULT_ROOT is set.
 *     Every mutating filesystem call whose path lies under FSFAULT_ROOT is an "effect":
 *       FSFAULT_LOG=<file>                       append "<seq> <tid> <op> <class> <k> <bytes> <relpath>" per effect
 *       FSFAULT_CRASH=<class>:<k>:<before|after|torn>   die (SIGKILL to self) at the k-th effect of <class>
 *     Classes (each is touched by one thread only, so (class, k) is a deterministic coordinate):
 *       ptr   tracking/run.json*          cp   tracking/checkpoint*
 *       res   run/<id>/result.json.zst*   log:<cmd>/<hash>/<file>   open/write of one log file
 *       slot  mkdir/rmdir/unlink below run/, and anything else
 *  2. Randomness seam. With FSFAULT_RANDSEED=<n> in a `monorail` process, getrandom() returns a
 *     deterministic byte stream, which makes std's RandomState (HashMap/HashSet iteration order,
 *     e.g. the order of explicit -t targets) and tokio's select! seed a function of n.
 *  3. Wall-clock seam. With FSFAULT_CLOCK=<offset_secs>[:<after_reads>:<delta_secs>] in a `monorail` process
 *     every reading of the realtime clock (clock_gettime(CLOCK_REALTIME[_COARSE]), gettimeofday, time) is
 *     shifted by <offset_secs>, and from the (<after_reads>+1)-th reading on by <delta_secs> more: a clock that
 *     is wrong by hours or years and that jumps (forwards or backwards) in the middle of an invocation. The
 *     monotonic clock (timers, runtimes) and the timestamps the kernel puts on files are left alone, so the
 *     process also disagrees with the file system about what time it is.
 */
#define _GNU_SOURCE
#include <dlfcn.h>
#include <errno.h>
#include <fcntl.h>
#include <pthread.h>
#include <signal.h>
#include <stdarg.h>
#include <stdint.h>
#include <stdio.h>
#include <stdlib.h>
#include <string.h>
#include <sys/socket.h>
#include <netinet/in.h>
#include <sys/stat.h>
#include <sys/syscall.h>
#include <sys/types.h>
#include <sys/uio.h>
#include <sys/time.h>
#include <time.h>
#include <unistd.h>

#define MAXFD 4096
#define MAXCLASS 256

static int active = 0;
static int rand_active = 0;
static long swap_k = 0;          /* FSFAULT_SWAP=<k>|<path>|<alt>: when <path> is opened read-only for the k-th time, <alt> is */
static long swap_seen = 0;       /* renamed over it first (another process replaces the file between two reads of one invocation) */
static char swap_path[4096];
static char swap_alt[4096];
static const char *swap_base = NULL;
static int clock_active = 0;
static long long clock_off = 0;
static long clock_jump_after = -1;
static long long clock_jump_delta = 0;
static long clock_reads = 0;
static uint64_t rand_state = 0;
static char root[4096];
static size_t root_len = 0;
static int log_fd = -1;
static char crash_class[512];
static long crash_k = -1;
static int crash_mode = 0; /* 1 before, 2 after, 3 torn */
static pthread_mutex_t mu = PTHREAD_MUTEX_INITIALIZER;
static long seq = 0;
static char stall_match[256];   /* FSFAULT_WRITE_STALL=<substring of class>:<k>:<ms>: the k-th write whose class */
static long stall_k = -1;        /* contains the substring takes <ms> longer (a stalled disk), once */
static long stall_ms = 0;
static long stall_seen = 0;
static char fail_match[256];    /* FSFAULT_WRITE_FAIL=<substring of class>:<k>: from the k-th write whose class contains */
static long fail_k = -1;         /* the substring on, every such write fails with ENOSPC (a disk that has filled up) */
static long fail_seen = 0;
static char unlink_fail[256];    /* FSFAULT_UNLINK_FAIL=<substring>: unlink/rmdir of a path below the root that contains it fails with EPERM */
static long unlink_delay_us = 0; /* FSFAULT_UNLINK_DELAY_US: a slow disk for unlink/rmdir under the root */

static char *fd_rel[MAXFD]; /* relpath of tracked writable fds */

static struct {
    char name[512];
    long n;
} classes[MAXCLASS];
static int nclasses = 0;

static int (*real_open)(const char *, int, ...);
static int (*real_open64)(const char *, int, ...);
static int (*real_openat)(int, const char *, int, ...);
static int (*real_openat64)(int, const char *, int, ...);
static ssize_t (*real_write)(int, const void *, size_t);
static ssize_t (*real_writev)(int, const struct iovec *, int);
static ssize_t (*real_pwrite64)(int, const void *, size_t, off_t);
static int (*real_close)(int);
static int (*real_mkdir)(const char *, mode_t);
static int (*real_mkdirat)(int, const char *, mode_t);
static int (*real_unlink)(const char *);
static int (*real_unlinkat)(int, const char *, int);
static int (*real_rmdir)(const char *);
static int (*real_rename)(const char *, const char *);
static int (*real_renameat)(int, const char *, int, const char *);
static int (*real_ftruncate)(int, off_t);
static int (*real_ftruncate64)(int, off_t);

static void resolve_syms(void) {
    real_open = dlsym(RTLD_NEXT, "open");
    real_open64 = dlsym(RTLD_NEXT, "open64");
    real_openat = dlsym(RTLD_NEXT, "openat");
    real_openat64 = dlsym(RTLD_NEXT, "openat64");
    real_write = dlsym(RTLD_NEXT, "write");
    real_writev = dlsym(RTLD_NEXT, "writev");
    real_pwrite64 = dlsym(RTLD_NEXT, "pwrite64");
    real_close = dlsym(RTLD_NEXT, "close");
    real_mkdir = dlsym(RTLD_NEXT, "mkdir");
    real_mkdirat = dlsym(RTLD_NEXT, "mkdirat");
    real_unlink = dlsym(RTLD_NEXT, "unlink");
    real_unlinkat = dlsym(RTLD_NEXT, "unlinkat");
    real_rmdir = dlsym(RTLD_NEXT, "rmdir");
    real_rename = dlsym(RTLD_NEXT, "rename");
    real_renameat = dlsym(RTLD_NEXT, "renameat");
    real_ftruncate = dlsym(RTLD_NEXT, "ftruncate");
    real_ftruncate64 = dlsym(RTLD_NEXT, "ftruncate64");
}

__attribute__((constructor)) static void init(void) {
    resolve_syms();
    char comm[64] = {0};
    int fd = real_open("/proc/self/comm", O_RDONLY);
    if (fd >= 0) {
        ssize_t n = read(fd, comm, sizeof(comm) - 1);
        if (n > 0 && comm[n - 1] == '\n') comm[n - 1] = 0;
        real_close(fd);
    }
    if (strcmp(comm, "monorail") != 0) return;
    const char *rs = getenv("FSFAULT_RANDSEED");
    if (rs && *rs) {
        rand_state = strtoull(rs, NULL, 10);
        rand_active = 1;
    }
    const char *sw = getenv("FSFAULT_SWAP");
    if (sw && *sw) {
        char tmp[9000];
        strncpy(tmp, sw, sizeof(tmp) - 1);
        tmp[sizeof(tmp) - 1] = 0;
        char *a = strchr(tmp, '|');
        if (a) {
            *a++ = 0;
            char *b = strchr(a, '|');
            if (b) {
                *b++ = 0;
                if (realpath(a, swap_path)) {
                    strncpy(swap_alt, b, sizeof(swap_alt) - 1);
                    swap_base = strrchr(swap_path, '/');
                    swap_base = swap_base ? swap_base + 1 : swap_path;
                    swap_k = atol(tmp);
                }
            }
        }
    }
    const char *ck = getenv("FSFAULT_CLOCK");
    if (ck && *ck) {
        char *e = NULL;
        clock_off = strtoll(ck, &e, 10);
        if (e && *e == ':') {
            clock_jump_after = strtol(e + 1, &e, 10);
            if (e && *e == ':') clock_jump_delta = strtoll(e + 1, NULL, 10);
        }
        clock_active = 1;
    }
    const char *r = getenv("FSFAULT_ROOT");
    if (!r || !*r) return;
    strncpy(root, r, sizeof(root) - 2);
    root_len = strlen(root);
    while (root_len > 1 && root[root_len - 1] == '/') root[--root_len] = 0;
    const char *ws = getenv("FSFAULT_WRITE_STALL");
    if (ws && *ws) {
        char tmp[512];
        strncpy(tmp, ws, sizeof(tmp) - 1);
        tmp[sizeof(tmp) - 1] = 0;
        char *m = strrchr(tmp, ':');
        if (m) {
            *m++ = 0;
            char *k = strrchr(tmp, ':');
            if (k) {
                *k++ = 0;
                strncpy(stall_match, tmp, sizeof(stall_match) - 1);
                stall_k = atol(k);
                stall_ms = atol(m);
            }
        }
    }
    const char *wf = getenv("FSFAULT_WRITE_FAIL");
    if (wf && *wf) {
        char tmp[512];
        strncpy(tmp, wf, sizeof(tmp) - 1);
        tmp[sizeof(tmp) - 1] = 0;
        char *k = strrchr(tmp, ':');
        if (k) {
            *k++ = 0;
            strncpy(fail_match, tmp, sizeof(fail_match) - 1);
            fail_k = atol(k);
        }
    }
    const char *uf = getenv("FSFAULT_UNLINK_FAIL");
    if (uf && *uf) strncpy(unlink_fail, uf, sizeof(unlink_fail) - 1);
    const char *ud = getenv("FSFAULT_UNLINK_DELAY_US");
    if (ud && *ud) unlink_delay_us = atol(ud);
    const char *lg = getenv("FSFAULT_LOG");
    if (lg && *lg) log_fd = real_open(lg, O_WRONLY | O_CREAT | O_APPEND, 0644);
    const char *c = getenv("FSFAULT_CRASH");
    if (c && *c) {
        /* <class>:<k>:<mode> ; class may itself contain ':' (log:...), so split from the right */
        char tmp[1024];
        strncpy(tmp, c, sizeof(tmp) - 1);
        tmp[sizeof(tmp) - 1] = 0;
        char *m = strrchr(tmp, ':');
        if (m) {
            *m++ = 0;
            char *k = strrchr(tmp, ':');
            if (k) {
                *k++ = 0;
                strncpy(crash_class, tmp, sizeof(crash_class) - 1);
                crash_k = atol(k);
                crash_mode = !strcmp(m, "before") ? 1 : !strcmp(m, "after") ? 2 : !strcmp(m, "torn") ? 3 : 0;
            }
        }
    }
    active = 1;
}

static void die(void) {
    kill(getpid(), SIGKILL);
    for (;;) pause();
}

/* absolute path of (dirfd, path) into out; returns 0 if not under root */
static int under_root(int dirfd, const char *path, char *rel, size_t rel_sz) {
    char abs[8192];
    if (!path) return 0;
    if (path[0] == '/') {
        strncpy(abs, path, sizeof(abs) - 1);
        abs[sizeof(abs) - 1] = 0;
    } else {
        char base[4096];
        if (dirfd == AT_FDCWD) {
            if (!getcwd(base, sizeof(base))) return 0;
        } else {
            char p[64];
            snprintf(p, sizeof(p), "/proc/self/fd/%d", dirfd);
            ssize_t n = readlink(p, base, sizeof(base) - 1);
            if (n <= 0) return 0;
            base[n] = 0;
        }
        snprintf(abs, sizeof(abs), "%s/%s", base, path);
    }
    if (strncmp(abs, root, root_len) != 0) return 0;
    if (abs[root_len] != '/' && abs[root_len] != 0) return 0;
    const char *r = abs + root_len;
    while (*r == '/') r++;
    strncpy(rel, r, rel_sz - 1);
    rel[rel_sz - 1] = 0;
    return 1;
}

static void classify(const char *op, const char *rel, char *cls, size_t sz) {
    int structural = !strcmp(op, "mkdir") || !strcmp(op, "rmdir") || !strcmp(op, "unlink");
    if (!strncmp(rel, "tracking/run.json", 17)) {
        snprintf(cls, sz, "ptr");
    } else if (!strncmp(rel, "tracking/checkpoint", 19)) {
        snprintf(cls, sz, "cp");
    } else if (structural) {
        snprintf(cls, sz, "slot");
    } else if (!strncmp(rel, "run/", 4)) {
        const char *p = strchr(rel + 4, '/');
        if (p && !strncmp(p + 1, "result.json.zst", 15)) {
            snprintf(cls, sz, "res");
        } else if (p && strchr(p + 1, '/')) {
            snprintf(cls, sz, "log:%s", p + 1);
        } else {
            snprintf(cls, sz, "slot");
        }
    } else {
        snprintf(cls, sz, "slot");
    }
}

/* Registers an effect. Returns the crash action for it: 0 none, 1 before, 2 after, 3 torn. */
static int effect(const char *op, const char *rel, size_t bytes) {
    char cls[600];
    classify(op, rel, cls, sizeof(cls));
    pthread_mutex_lock(&mu);
    int i;
    for (i = 0; i < nclasses; i++)
        if (!strcmp(classes[i].name, cls)) break;
    if (i == nclasses && nclasses < MAXCLASS) {
        strncpy(classes[i].name, cls, sizeof(classes[i].name) - 1);
        classes[i].n = 0;
        nclasses++;
    }
    long k = 0;
    if (i < MAXCLASS) k = ++classes[i].n;
    long s = ++seq;
    if (log_fd >= 0) {
        char line[9000];
        int n = snprintf(line, sizeof(line), "%ld %ld %s %s %ld %zu %s\n", s, (long)syscall(SYS_gettid), op, cls, k, bytes, rel);
        if (n > 0) real_write(log_fd, line, (size_t)n);
    }
    int act = 0;
    if (crash_mode && k == crash_k && !strcmp(cls, crash_class)) act = crash_mode;
    long stall = 0;
    if (stall_k > 0 && !strcmp(op, "write") && strstr(cls, stall_match) && ++stall_seen == stall_k) stall = stall_ms;
    if (!act && fail_k > 0 && !strcmp(op, "write") && strstr(cls, fail_match) && ++fail_seen >= fail_k) act = 4;
    pthread_mutex_unlock(&mu);
    if (stall > 0) usleep((useconds_t)(stall * 1000));
    if (act == 1) die();
    return act;
}

static void track(int fd, const char *rel) {
    if (fd < 0 || fd >= MAXFD) return;
    pthread_mutex_lock(&mu);
    free(fd_rel[fd]);
    fd_rel[fd] = strdup(rel);
    pthread_mutex_unlock(&mu);
}
static int tracked(int fd, char *rel, size_t sz) {
    if (fd < 0 || fd >= MAXFD) return 0;
    int r = 0;
    pthread_mutex_lock(&mu);
    if (fd_rel[fd]) {
        strncpy(rel, fd_rel[fd], sz - 1);
        rel[sz - 1] = 0;
        r = 1;
    }
    pthread_mutex_unlock(&mu);
    return r;
}

static int do_open(int which, int dirfd, const char *path, int flags, mode_t mode) {
    char rel[4096];
    if (swap_k > 0 && path && (flags & O_ACCMODE) == O_RDONLY && (dirfd == AT_FDCWD || path[0] == '/') && strstr(path, swap_base)) {
        char rp[4096];
        if (realpath(path, rp) && strcmp(rp, swap_path) == 0) {
            pthread_mutex_lock(&mu);
            long n = ++swap_seen;
            pthread_mutex_unlock(&mu);
            if (n == swap_k) {
                if (!real_rename) resolve_syms();
                real_rename(swap_alt, swap_path);
            }
        }
    }
    int writable = (flags & O_ACCMODE) != O_RDONLY;
    int mutating = flags & (O_CREAT | O_TRUNC);
    int mine = active && (writable || mutating) && under_root(dirfd, path, rel, sizeof(rel));
    int act = 0;
    if (mine && mutating) act = effect((flags & O_TRUNC) ? "open-trunc" : "open-create", rel, 0);
    int fd;
    switch (which) {
    case 0: fd = real_open(path, flags, mode); break;
    case 1: fd = real_open64(path, flags, mode); break;
    case 2: fd = real_openat(dirfd, path, flags, mode); break;
    default: fd = real_openat64(dirfd, path, flags, mode); break;
    }
    if (mine && fd >= 0 && writable) track(fd, rel);
    if (act >= 2) die();
    return fd;
}

int open(const char *path, int flags, ...) {
    mode_t mode = 0;
    if (flags & (O_CREAT | O_TMPFILE)) { va_list ap; va_start(ap, flags); mode = va_arg(ap, mode_t); va_end(ap); }
    if (!real_open) resolve_syms();
    return do_open(0, AT_FDCWD, path, flags, mode);
}
int open64(const char *path, int flags, ...) {
    mode_t mode = 0;
    if (flags & (O_CREAT | O_TMPFILE)) { va_list ap; va_start(ap, flags); mode = va_arg(ap, mode_t); va_end(ap); }
    if (!real_open64) resolve_syms();
    return do_open(1, AT_FDCWD, path, flags, mode);
}
int openat(int dirfd, const char *path, int flags, ...) {
    mode_t mode = 0;
    if (flags & (O_CREAT | O_TMPFILE)) { va_list ap; va_start(ap, flags); mode = va_arg(ap, mode_t); va_end(ap); }
    if (!real_openat) resolve_syms();
    return do_open(2, dirfd, path, flags, mode);
}
int openat64(int dirfd, const char *path, int flags, ...) {
    mode_t mode = 0;
    if (flags & (O_CREAT | O_TMPFILE)) { va_list ap; va_start(ap, flags); mode = va_arg(ap, mode_t); va_end(ap); }
    if (!real_openat64) resolve_syms();
    return do_open(3, dirfd, path, flags, mode);
}

ssize_t write(int fd, const void *buf, size_t n) {
    if (!real_write) resolve_syms();
    char rel[4096];
    if (active && n > 0 && tracked(fd, rel, sizeof(rel))) {
        int act = effect("write", rel, n);
        if (act == 4) {
            errno = ENOSPC;
            return -1;
        }
        if (act == 3) {
            real_write(fd, buf, n / 2);
            die();
        }
        ssize_t r = real_write(fd, buf, n);
        if (act == 2) die();
        return r;
    }
    return real_write(fd, buf, n);
}
ssize_t writev(int fd, const struct iovec *iov, int cnt) {
    if (!real_writev) resolve_syms();
    char rel[4096];
    if (active && tracked(fd, rel, sizeof(rel))) {
        size_t tot = 0;
        for (int i = 0; i < cnt; i++) tot += iov[i].iov_len;
        int act = effect("write", rel, tot);
        if (act == 4) {
            errno = ENOSPC;
            return -1;
        }
        if (act == 3) {
            if (cnt > 0) real_write(fd, iov[0].iov_base, iov[0].iov_len / 2);
            die();
        }
        ssize_t r = real_writev(fd, iov, cnt);
        if (act == 2) die();
        return r;
    }
    return real_writev(fd, iov, cnt);
}
ssize_t pwrite64(int fd, const void *buf, size_t n, off_t off) {
    if (!real_pwrite64) resolve_syms();
    char rel[4096];
    if (active && n > 0 && tracked(fd, rel, sizeof(rel))) {
        int act = effect("write", rel, n);
        if (act == 4) {
            errno = ENOSPC;
            return -1;
        }
        if (act == 3) {
            real_pwrite64(fd, buf, n / 2, off);
            die();
        }
        ssize_t r = real_pwrite64(fd, buf, n, off);
        if (act == 2) die();
        return r;
    }
    return real_pwrite64(fd, buf, n, off);
}
int close(int fd) {
    if (!real_close) resolve_syms();
    if (active && fd >= 0 && fd < MAXFD) {
        pthread_mutex_lock(&mu);
        free(fd_rel[fd]);
        fd_rel[fd] = NULL;
        pthread_mutex_unlock(&mu);
    }
    return real_close(fd);
}
int ftruncate(int fd, off_t len) {
    if (!real_ftruncate) resolve_syms();
    char rel[4096];
    if (active && tracked(fd, rel, sizeof(rel))) {
        int act = effect("truncate", rel, 0);
        int r = real_ftruncate(fd, len);
        if (act >= 2) die();
        return r;
    }
    return real_ftruncate(fd, len);
}
int ftruncate64(int fd, off_t len) {
    if (!real_ftruncate64) resolve_syms();
    char rel[4096];
    if (active && tracked(fd, rel, sizeof(rel))) {
        int act = effect("truncate", rel, 0);
        int r = real_ftruncate64(fd, len);
        if (act >= 2) die();
        return r;
    }
    return real_ftruncate64(fd, len);
}
int mkdir(const char *path, mode_t mode) {
    if (!real_mkdir) resolve_syms();
    char rel[4096];
    if (active && under_root(AT_FDCWD, path, rel, sizeof(rel))) {
        struct stat st;
        if (stat(path, &st) == 0) return real_mkdir(path, mode); /* already there: not an effect */
        int act = effect("mkdir", rel, 0);
        int r = real_mkdir(path, mode);
        if (act >= 2) die();
        return r;
    }
    return real_mkdir(path, mode);
}
int mkdirat(int dirfd, const char *path, mode_t mode) {
    if (!real_mkdirat) resolve_syms();
    char rel[4096];
    if (active && under_root(dirfd, path, rel, sizeof(rel))) {
        int act = effect("mkdir", rel, 0);
        int r = real_mkdirat(dirfd, path, mode);
        if (act >= 2) die();
        return r;
    }
    return real_mkdirat(dirfd, path, mode);
}
int unlink(const char *path) {
    if (!real_unlink) resolve_syms();
    char rel[4096];
    if (active && under_root(AT_FDCWD, path, rel, sizeof(rel))) {
        if (unlink_fail[0] && strstr(rel, unlink_fail)) { errno = EPERM; return -1; }
        int act = effect("unlink", rel, 0);
        int r = real_unlink(path);
        if (act >= 2) die();
        return r;
    }
    return real_unlink(path);
}
int unlinkat(int dirfd, const char *path, int flags) {
    if (!real_unlinkat) resolve_syms();
    char rel[4096];
    if (active && under_root(dirfd, path, rel, sizeof(rel))) {
        if (unlink_fail[0] && strstr(rel, unlink_fail)) { errno = EPERM; return -1; }
        if (unlink_delay_us > 0) usleep((useconds_t)unlink_delay_us);
        int act = effect((flags & AT_REMOVEDIR) ? "rmdir" : "unlink", rel, 0);
        int r = real_unlinkat(dirfd, path, flags);
        if (act >= 2) die();
        return r;
    }
    return real_unlinkat(dirfd, path, flags);
}
int rmdir(const char *path) {
    if (!real_rmdir) resolve_syms();
    char rel[4096];
    if (active && under_root(AT_FDCWD, path, rel, sizeof(rel))) {
        if (unlink_fail[0] && strstr(rel, unlink_fail)) { errno = EPERM; return -1; }
        int act = effect("rmdir", rel, 0);
        int r = real_rmdir(path);
        if (act >= 2) die();
        return r;
    }
    return real_rmdir(path);
}
int rename(const char *a, const char *b) {
    if (!real_rename) resolve_syms();
    char rel[4096];
    if (active && under_root(AT_FDCWD, b, rel, sizeof(rel))) {
        int act = effect("rename", rel, 0);
        int r = real_rename(a, b);
        if (act >= 2) die();
        return r;
    }
    return real_rename(a, b);
}
int renameat(int ad, const char *a, int bd, const char *b) {
    if (!real_renameat) resolve_syms();
    char rel[4096];
    if (active && under_root(bd, b, rel, sizeof(rel))) {
        int act = effect("rename", rel, 0);
        int r = real_renameat(ad, a, bd, b);
        if (act >= 2) die();
        return r;
    }
    return real_renameat(ad, a, bd, b);
}

/* ---- bind observation: FSFAULT_BINDLOG=<file> gets one line "<pid> <port> <rc> <errno>" per bind() of
 * an AF_INET socket in a `monorail` process, so that the controller can know that a contender has
 * made (and lost) its attempt on the lock port before it lets the holder go. ---- */
static int (*real_bind)(int, const struct sockaddr *, socklen_t);
static int is_monorail = -1;

/* ---- port map: FSFAULT_PORTMAP="5917:41001,5918:41002" rewrites the port of every AF_INET bind() and
 * connect(): a configuration that relies on the documented default ports can then run in many
 * worlds at once, each world's defaults landing on its own reserved pair ---- */
static int map_port(const struct sockaddr *addr, socklen_t len, struct sockaddr_in *copy) {
    const char *pm = getenv("FSFAULT_PORTMAP");
    if (!pm || !*pm || !addr || addr->sa_family != AF_INET || len < (socklen_t)sizeof(struct sockaddr_in)) return 0;
    int port = (int)ntohs(((const struct sockaddr_in *)addr)->sin_port);
    const char *p = pm;
    while (*p) {
        int from = atoi(p);
        const char *c = strchr(p, ':');
        if (!c) break;
        int to = atoi(c + 1);
        if (from == port && to > 0) {
            memcpy(copy, addr, sizeof(*copy));
            copy->sin_port = htons((unsigned short)to);
            return 1;
        }
        const char *n = strchr(c, ',');
        if (!n) break;
        p = n + 1;
    }
    return 0;
}
static int (*real_connect)(int, const struct sockaddr *, socklen_t);
int connect(int fd, const struct sockaddr *addr, socklen_t len) {
    if (!real_connect) real_connect = dlsym(RTLD_NEXT, "connect");
    struct sockaddr_in m;
    if (map_port(addr, len, &m)) return real_connect(fd, (const struct sockaddr *)&m, sizeof(m));
    return real_connect(fd, addr, len);
}

int bind(int fd, const struct sockaddr *addr, socklen_t len) {
    if (!real_bind) real_bind = dlsym(RTLD_NEXT, "bind");
    struct sockaddr_in mapped;
    if (map_port(addr, len, &mapped)) {
        addr = (const struct sockaddr *)&mapped;
        len = sizeof(mapped);
    }
    int rc = real_bind(fd, addr, len);
    int e = errno;
    const char *lg = getenv("FSFAULT_BINDLOG");
    if (lg && *lg && addr && addr->sa_family == AF_INET) {
        if (is_monorail < 0) {
            char comm[64] = {0};
            if (!real_open) resolve_syms();
            int cfd = real_open("/proc/self/comm", O_RDONLY);
            if (cfd >= 0) {
                ssize_t n = read(cfd, comm, sizeof(comm) - 1);
                if (n > 0 && comm[n - 1] == '\n') comm[n - 1] = 0;
                real_close(cfd);
            }
            is_monorail = strcmp(comm, "monorail") == 0;
        }
        if (is_monorail) {
            int lfd = real_open(lg, O_WRONLY | O_CREAT | O_APPEND, 0644);
            if (lfd >= 0) {
                char line[128];
                int n = snprintf(line, sizeof(line), "%d %d %d %d\n", (int)getpid(), (int)ntohs(((const struct sockaddr_in *)addr)->sin_port), rc, rc ? e : 0);
                if (n > 0) real_write(lfd, line, (size_t)n);
                real_close(lfd);
            }
        }
    }
    errno = e;
    return rc;
}

/* ---- slow listen(): FSFAULT_LISTEN_DELAY_US widens the window between bind() and listen() of a
 * `monorail` process, the way a loaded machine would ---- */
static int (*real_listen)(int, int);
int listen(int fd, int backlog) {
    if (!real_listen) real_listen = dlsym(RTLD_NEXT, "listen");
    const char *d = getenv("FSFAULT_LISTEN_DELAY_US");
    if (d && *d) {
        if (is_monorail < 0) {
            char comm[64] = {0};
            if (!real_open) resolve_syms();
            int cfd = real_open("/proc/self/comm", O_RDONLY);
            if (cfd >= 0) {
                ssize_t n = read(cfd, comm, sizeof(comm) - 1);
                if (n > 0 && comm[n - 1] == '\n') comm[n - 1] = 0;
                real_close(cfd);
            }
            is_monorail = strcmp(comm, "monorail") == 0;
        }
        if (is_monorail) usleep((useconds_t)atol(d));
    }
    return real_listen(fd, backlog);
}

/* ---- randomness seam ---- */
static uint64_t splitmix(void) {
    uint64_t z = (rand_state += 0x9E3779B97F4A7C15ULL);
    z = (z ^ (z >> 30)) * 0xBF58476D1CE4E5B9ULL;
    z = (z ^ (z >> 27)) * 0x94D049BB133111EBULL;
    return z ^ (z >> 31);
}
ssize_t getrandom(void *buf, size_t len, unsigned int flags) {
    if (!rand_active) return syscall(SYS_getrandom, buf, len, flags);
    unsigned char *p = buf;
    pthread_mutex_lock(&mu);
    for (size_t i = 0; i < len; i += 8) {
        uint64_t v = splitmix();
        size_t n = len - i < 8 ? len - i : 8;
        memcpy(p + i, &v, n);
    }
    pthread_mutex_unlock(&mu);
    return (ssize_t)len;
}

/* ---- wall-clock seam ---- */
static long long clock_shift(void) {
    long n = __sync_add_and_fetch(&clock_reads, 1);
    return clock_off + ((clock_jump_after >= 0 && n > clock_jump_after) ? clock_jump_delta : 0);
}
static int (*real_clock_gettime)(clockid_t, struct timespec *);
int clock_gettime(clockid_t c, struct timespec *ts) {
    if (!real_clock_gettime) real_clock_gettime = dlsym(RTLD_NEXT, "clock_gettime");
    int r = real_clock_gettime(c, ts);
    if (r == 0 && clock_active && ts && (c == CLOCK_REALTIME || c == CLOCK_REALTIME_COARSE)) ts->tv_sec += clock_shift();
    return r;
}
static int (*real_gettimeofday)(struct timeval *, void *);
int gettimeofday(struct timeval *tv, void *tz) {
    if (!real_gettimeofday) real_gettimeofday = dlsym(RTLD_NEXT, "gettimeofday");
    int r = real_gettimeofday(tv, tz);
    if (r == 0 && clock_active && tv) tv->tv_sec += clock_shift();
    return r;
}
static time_t (*real_time)(time_t *);
time_t time(time_t *t) {
    if (!real_time) real_time = dlsym(RTLD_NEXT, "time");
    time_t v = real_time(NULL);
    if (clock_active && v != (time_t)-1) v += clock_shift();
    if (t) *t = v;
    return v;
}
